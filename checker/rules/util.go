package rules

import (
	"fmt"
	"go/constant"
	"go/types"
	"regexp"
	"sort"
	"strings"

	"mcvet/engine"

	"golang.org/x/tools/go/ssa"
)

type (
	Report  = engine.Report
	Program = engine.Program
	Lit     = engine.Lit
)

var (
	E     = engine.Expr
	Short = engine.Short
	FK    = engine.FuncKey
)

// fn returns the module function or records an anchor-lost failure.
func fn(r *Report, p *Program, rule, key string) *ssa.Function {
	f := p.Func(key)
	if f == nil {
		r.Fail(rule, key, "-", "anchor-lost", "function "+key+" not found in /repo (renamed or removed): rule cannot be decided")
	}
	return f
}

func re(s string) func(string) bool {
	rx := regexp.MustCompile(s)
	return rx.MatchString
}

// callsTo returns call sites in f (and its closures) whose callee key has one of the suffixes.
func callsTo(f *ssa.Function, closures bool, sufs ...string) []engine.CallSite {
	out := engine.CallsIn(f, closures, engine.HasSuffix(sufs...))
	// calls that were moved into a helper extracted from f are still f's calls
	for _, g := range engine.InlinedUnder(f) {
		out = append(out, engine.CallsIn(g, closures, engine.HasSuffix(sufs...))...)
	}
	if closures {
		for _, cl := range engine.Closures(f) {
			for _, g := range engine.InlinedUnder(cl) {
				out = append(out, engine.CallsIn(g, closures, engine.HasSuffix(sufs...))...)
			}
		}
	}
	return out
}

// isCallTo reports whether instruction in is a call whose key ends in one of sufs.
func isCallTo(in ssa.Instruction, sufs ...string) bool {
	ci, ok := in.(ssa.CallInstruction)
	if !ok {
		return false
	}
	k := engine.CallKey(ci.Common())
	if k == "" {
		return false
	}
	for _, s := range sufs {
		if strings.HasSuffix(k, s) {
			return true
		}
	}
	return false
}

// unguarded searches for a path from entry (or from) to target that crosses no
// edge whose literal satisfies guard. nil => every path is guarded.
func unguarded(f *ssa.Function, from []engine.Point, target ssa.Instruction, guard func(l Lit) bool) *engine.Witness {
	return engine.Query{
		Fn:     f,
		From:   from,
		Target: func(in ssa.Instruction) bool { return in == target },
		CutEdge: func(b *ssa.BasicBlock, i int, l *Lit) bool {
			if l == nil {
				return false
			}
			if guard(*l) {
				return true
			}
			// the guard may be established by a boolean helper that was branched on:
			// on each of the helper's paths to this outcome some literal satisfies it
			alts := engine.ExpandLitDNF(*l)
			if len(alts) == 0 {
				return false
			}
			for _, alt := range alts {
				hit := false
				for _, il := range alt {
					if guard(il) {
						hit = true
						break
					}
				}
				if !hit {
					return false
				}
			}
			return true
		},
	}.Find()
}

// bypass searches for a path from entry to target that does not execute any
// instruction satisfying through. nil => `through` dominates target.
func bypass(f *ssa.Function, target ssa.Instruction, through func(in ssa.Instruction) bool) *engine.Witness {
	return engine.Query{
		Fn:       f,
		Target:   func(in ssa.Instruction) bool { return in == target },
		CutInstr: func(in ssa.Instruction) bool { return in != target && through(in) },
	}.Find()
}

// escapes searches for a path from just after `from` to a return satisfying
// retPred that executes no instruction satisfying through.
func escapes(f *ssa.Function, from ssa.Instruction, retPred func(r *ssa.Return) bool, through func(in ssa.Instruction) bool) *engine.Witness {
	var start []engine.Point
	if from != nil {
		start = []engine.Point{engine.After(from)}
	}
	return engine.Query{
		Fn:   f,
		From: start,
		Target: func(in ssa.Instruction) bool {
			rt, ok := in.(*ssa.Return)
			return ok && (retPred == nil || retPred(rt))
		},
		CutInstr: through,
	}.Find()
}

// successEdgeOf returns a guard that accepts the "err == nil" edge of the error
// returned by call (and, for bool/ptr results, nothing else).
func successEdgeOf(call ssa.CallInstruction) func(l Lit) bool {
	ev := engine.ErrValue(call)
	return func(l Lit) bool {
		if ev == nil {
			return false
		}
		v, isNil, ok := l.NilTest()
		return ok && isNil && engine.SameValue(v, ev)
	}
}

// afterSuccess: every path entry→target passes call and then the err==nil edge of its error.
// Returns a witness of a violating path or nil.
func notAfterSuccess(f *ssa.Function, call ssa.CallInstruction, target ssa.Instruction) *engine.Witness {
	if engine.ErrValue(call) == nil {
		// no error result: plain dominance
		return bypass(f, target, func(in ssa.Instruction) bool { return in == call.(ssa.Instruction) })
	}
	return unguarded(f, nil, target, successEdgeOf(call))
}

// constOfType lists the constants of the named type declared in its package: name -> string value.
func constsOfType(p *Program, pkgPath, typeName string) map[string]string {
	out := map[string]string{}
	for _, pk := range p.Pkgs {
		if pk.PkgPath != pkgPath {
			continue
		}
		sc := pk.Types.Scope()
		tn, _ := sc.Lookup(typeName).(*types.TypeName)
		if tn == nil {
			return out
		}
		for _, n := range sc.Names() {
			if c, ok := sc.Lookup(n).(*types.Const); ok && types.Identical(c.Type(), tn.Type()) {
				if c.Val().Kind() == constant.String {
					out[n] = constant.StringVal(c.Val())
				} else {
					out[n] = c.Val().ExactString()
				}
			}
		}
	}
	return out
}

func constStr(v ssa.Value) (string, bool) {
	c, ok := engine.Unwrap(v).(*ssa.Const)
	if !ok || c.Value == nil || c.Value.Kind() != constant.String {
		return "", false
	}
	return constant.StringVal(c.Value), true
}

func isNilConst(v ssa.Value) bool {
	c, ok := v.(*ssa.Const)
	return ok && c.Value == nil
}

func paramIndex(f *ssa.Function, name string) int {
	for i, p := range f.Params {
		if p.Name() == name {
			return i
		}
	}
	return -1
}

func sortedSet(m map[string]bool) []string {
	var out []string
	for k := range m {
		out = append(out, k)
	}
	sort.Strings(out)
	return out
}

func verbsOf(effs []ssa.Instruction) []string {
	var out []string
	for _, e := range effs {
		if ci, ok := e.(ssa.CallInstruction); ok {
			k := engine.CallKey(ci.Common())
			if _, verb, ok := engine.ClassifySink(k); ok {
				out = append(out, verb)
				continue
			}
			if i := strings.LastIndex(k, "."); i >= 0 {
				out = append(out, k[i+1:])
			}
		}
	}
	return out
}

func count(xs []string, s string) int {
	n := 0
	for _, x := range xs {
		if x == s {
			n++
		}
	}
	return n
}

func pathWhy(w *engine.Witness) string {
	if w == nil {
		return ""
	}
	s := w.Path()
	if s == "" {
		s = "(unconditional)"
	}
	return "path: " + s
}

func sf(format string, a ...interface{}) string { return fmt.Sprintf(format, a...) }

// derefAlloc: for a value loaded from a composite-literal Alloc (struct passed
// by value) returns that Alloc.
func literalAlloc(v ssa.Value) *ssa.Alloc {
	v = engine.Unwrap(v)
	if a, ok := v.(*ssa.Alloc); ok {
		return a
	}
	if addr := engine.LoadedFrom(v); addr != nil {
		if a, ok := addr.(*ssa.Alloc); ok {
			return a
		}
	}
	return nil
}

// callOf returns the call instruction a value comes from (through Extract and conversions).
func callOf(v ssa.Value) *ssa.Call {
	v = engine.ResolveLocal(v)
	switch x := v.(type) {
	case *ssa.Call:
		return x
	case *ssa.Extract:
		if c, ok := x.Tuple.(*ssa.Call); ok {
			return c
		}
	}
	return nil
}

// keyOf returns the callee key of the call a value comes from ("" if none).
func keyOf(v ssa.Value) string {
	if c := callOf(v); c != nil {
		return engine.CallKey(c.Common())
	}
	return ""
}

// isErrReturn: the return's error operand is a freshly built error, or a value
// that every path to the return has tested to be non-nil.
func isErrReturn(rt *ssa.Return) bool {
	if engine.ReturnsFreshError(rt) {
		return true
	}
	f := rt.Parent()
	idx := engine.ErrorResultIndex(f)
	if idx < 0 {
		return false
	}
	v := engine.RetVal(rt, idx)
	if isNilConst(v) {
		return false
	}
	w := unguarded(f, nil, rt, func(l Lit) bool {
		x, isNil, ok := l.NilTest()
		return ok && !isNil && engine.SameValue(x, v)
	})
	return w == nil
}

// innermostCopy looks through DeepCopy(DeepCopy(x)): the object identity that
// matters (what was copied, what is mutated before the write) is the inner copy.
func innermostCopy(c *ssa.Call) *ssa.Call {
	for i := 0; i < 4; i++ {
		in, ok := engine.ResolveLocal(c.Common().Args[0]).(*ssa.Call)
		if !ok || !strings.HasSuffix(engine.CallKey(in.Common()), "Unstructured.DeepCopy") {
			return c
		}
		c = in
	}
	return c
}

// guardCut builds a CutEdge function from a literal guard: the edge is cut when
// its literal satisfies the guard, or when it branches on a boolean helper every
// path of which (to that outcome) establishes the guard.
func guardCut(guard func(l Lit) bool) func(b *ssa.BasicBlock, i int, l *Lit) bool {
	return func(b *ssa.BasicBlock, i int, l *Lit) bool {
		if l == nil {
			return false
		}
		if guard(*l) {
			return true
		}
		alts := engine.ExpandLitDNF(*l)
		if len(alts) == 0 {
			return false
		}
		for _, alt := range alts {
			hit := false
			for _, il := range alt {
				if guard(il) {
					hit = true
					break
				}
			}
			if !hit {
				return false
			}
		}
		return true
	}
}

// fieldName: the name of the field a FieldAddr selects.
func fieldName(fa *ssa.FieldAddr) string {
	pt, ok := fa.X.Type().Underlying().(*types.Pointer)
	if !ok {
		return ""
	}
	st, ok := pt.Elem().Underlying().(*types.Struct)
	if !ok || fa.Field >= st.NumFields() {
		return ""
	}
	return st.Field(fa.Field).Name()
}

// phiEdgePolarity: the polarity (+1/-1) with which the literal matching `match` is crossed
// on the way into edge i of phi ph — on the edge pred→phi block itself, or on the single
// edge into pred when pred is a straight-line 'then' block. 0 when no such literal.
func phiEdgePolarity(ph *ssa.Phi, i int, match func(atom string) bool) int {
	pred := ph.Block().Preds[i]
	polar := 0
	check := func(b, to *ssa.BasicBlock) {
		for j, sc := range b.Succs {
			if sc == to {
				if l, has := engine.EdgeLit(b, j); has && match(l.Atom) {
					polar = -1
					if l.Pos {
						polar = 1
					}
				}
			}
		}
	}
	check(pred, ph.Block())
	if polar == 0 && len(pred.Preds) == 1 {
		check(pred.Preds[0], pred)
	}
	return polar
}

// selectOf recognises a two-way choice `cond ? a : b` in the two shapes it takes in this code base: a phi whose two
// edges arrive across the two polarities of one boolean atom, or a call of a (new) two-return helper
// `func(flag bool, …) T { if flag { return x }; return y }` — rendered in the caller's frame. match selects the atom.
func selectOf(v ssa.Value, match func(atom string) bool) (whenTrue, whenFalse string, ok bool) {
	switch x := v.(type) {
	case *ssa.Phi:
		if len(x.Edges) != 2 {
			return "", "", false
		}
		for i, e := range x.Edges {
			switch phiEdgePolarity(x, i, match) {
			case 1:
				whenTrue = E(e)
			case -1:
				whenFalse = E(e)
			default:
				return "", "", false
			}
		}
		return whenTrue, whenFalse, whenTrue != "" && whenFalse != ""
	case *ssa.Call:
		g := engine.StaticFn(x.Common())
		if g == nil || !strings.HasPrefix(FK(g), engine.ModPrefix) || len(g.Blocks) == 0 || g.Signature.Results().Len() != 1 {
			return "", "", false
		}
		paths, err := engine.EnumPaths(g, engine.EnumOpts{Max: 8})
		if err != nil || len(paths) != 2 {
			return "", "", false
		}
		args := x.Common().Args
		render := func(rv ssa.Value) string {
			if pr, isP := rv.(*ssa.Parameter); isP {
				for i, q := range g.Params {
					if q == pr && i < len(args) {
						return E(args[i])
					}
				}
			}
			return E(rv)
		}
		for _, pa := range paths {
			if len(pa.Ret) != 1 || len(pa.Lits) != 1 {
				return "", "", false
			}
			l := pa.Lits[0]
			// the atom is a bool parameter: translate to the actual argument's atom
			pr, isP := l.Cond.(*ssa.Parameter)
			if !isP {
				return "", "", false
			}
			actual := ""
			for i, q := range g.Params {
				if q == pr && i < len(args) {
					actual = E(args[i])
				}
			}
			if !match(actual) {
				return "", "", false
			}
			if l.Pos {
				whenTrue = render(pa.Ret[0])
			} else {
				whenFalse = render(pa.Ret[0])
			}
		}
		return whenTrue, whenFalse, whenTrue != "" && whenFalse != ""
	}
	return "", "", false
}
