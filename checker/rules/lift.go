package rules

import (
	"sort"
	"strings"

	"golang.org/x/tools/go/ssa"

	"mcvet/engine"
)

// This file makes the sink and anchor rules indifferent to two behaviour-
// preserving refactorings: (1) moving an API write into a helper whose operands
// are its parameters ("thin wrapper"), and (2) splitting an anchored function
// into a head and a tail helper with a single call site ("region").

// derivesFromParams: v is computed from g's parameters, constants and pure calls
// on them only — g does not choose the object itself (no map lookup, range, phi).
func derivesFromParams(v ssa.Value, d int) bool {
	if v == nil {
		return true
	}
	if d > 12 {
		return false
	}
	switch x := v.(type) {
	case *ssa.Parameter, *ssa.Const, *ssa.Global, *ssa.Function, *ssa.MakeMap, *ssa.MakeSlice:
		return true
	case *ssa.Call:
		if x.Common().IsInvoke() && !derivesFromParams(x.Common().Value, d+1) {
			return false
		}
		for _, a := range x.Common().Args {
			if !derivesFromParams(a, d+1) {
				return false
			}
		}
		return true
	case *ssa.UnOp:
		return derivesFromParams(x.X, d+1)
	case *ssa.FieldAddr:
		return derivesFromParams(x.X, d+1)
	case *ssa.Field:
		return derivesFromParams(x.X, d+1)
	case *ssa.MakeInterface:
		return derivesFromParams(x.X, d+1)
	case *ssa.ChangeType:
		return derivesFromParams(x.X, d+1)
	case *ssa.Convert:
		return derivesFromParams(x.X, d+1)
	case *ssa.ChangeInterface:
		return derivesFromParams(x.X, d+1)
	case *ssa.Extract:
		return derivesFromParams(x.Tuple, d+1)
	case *ssa.Slice:
		return derivesFromParams(x.X, d+1)
	case *ssa.IndexAddr:
		return derivesFromParams(x.X, d+1) && derivesFromParams(x.Index, d+1)
	case *ssa.BinOp:
		return derivesFromParams(x.X, d+1) && derivesFromParams(x.Y, d+1)
	case *ssa.Alloc:
		for _, st := range engine.Stores(x) {
			if !derivesFromParams(st.Val, d+1) {
				return false
			}
		}
		// stores into fields / elements of the allocation
		if refs := x.Referrers(); refs != nil {
			for _, ref := range *refs {
				switch a := ref.(type) {
				case *ssa.FieldAddr:
					for _, st := range engine.Stores(a) {
						if !derivesFromParams(st.Val, d+1) {
							return false
						}
					}
				case *ssa.IndexAddr:
					for _, st := range engine.Stores(a) {
						if !derivesFromParams(st.Val, d+1) {
							return false
						}
					}
				}
			}
		}
		return true
	}
	return false
}

var thinCache = map[*ssa.Function]*engine.Sink{}
var thinDone = map[*ssa.Function]bool{}

// thinWrapperSink returns the single API write of g when g is a thin wrapper:
// only statically called, loop-free, exactly one sink, and the sink's receiver
// and arguments derive from g's parameters. Otherwise nil.
func thinWrapperSink(p *Program, g *ssa.Function) *engine.Sink {
	if thinDone[g] {
		return thinCache[g]
	}
	thinDone[g] = true
	if !p.OnlyStaticallyCalled(g) || len(engine.RangeLoops(g)) > 0 {
		return nil
	}
	// no back edges at all
	idx := map[*ssa.BasicBlock]int{}
	for i, b := range engine.BlocksInl(g) {
		idx[b] = i
	}
	for _, b := range engine.BlocksInl(g) {
		for _, s := range b.Succs {
			if idx[s] <= idx[b] && s.Dominates(b) {
				return nil
			}
		}
	}
	sinks := engine.Sinks([]*ssa.Function{g})
	if len(sinks) != 1 {
		return nil
	}
	s := sinks[0]
	c := s.Common()
	if c.IsInvoke() && !derivesFromParams(c.Value, 0) {
		return nil
	}
	for _, a := range c.Args {
		if !derivesFromParams(a, 0) {
			return nil
		}
	}
	thinCache[g] = &s
	return &s
}

// frame is a program point at which an obligation about a sink may be established.
type frame struct {
	Fn *ssa.Function
	At ssa.Instruction
}

// effSink is a sink as seen from the function that decides about it: the sink's
// own function, or — for a sink inside a thin wrapper — each call site of the wrapper.
type effSink struct {
	engine.Sink
	Frames []frame // innermost first; Frames[0] is the sink's own function
	key    string
}

func (e effSink) Construct() string { return e.key }

// Outer is the outermost frame (the deciding function).
func (e effSink) Outer() frame { return e.Frames[len(e.Frames)-1] }

// effectiveSinks expands sinks inside thin wrappers to one effective sink per
// call site of the wrapper (two levels at most). Sinks elsewhere are unchanged,
// so construct keys on a tree without wrappers are the plain sink keys.
func effectiveSinks(p *Program, sinks []engine.Sink) []effSink {
	var out []effSink
	ord := map[string]int{}
	var expand func(s engine.Sink, frames []frame, depth int)
	expand = func(s engine.Sink, frames []frame, depth int) {
		cur := frames[len(frames)-1]
		if depth < 2 && thinWrapperSink(p, cur.Fn) != nil {
			for _, cs := range p.CallersOf(cur.Fn) {
				expand(s, append(append([]frame(nil), frames...), frame{cs.Fn, cs.Instr.(ssa.Instruction)}), depth+1)
			}
			return
		}
		key := s.Construct()
		if len(frames) > 1 {
			k := Short(FK(cur.Fn)) + "⇒" + s.Construct()
			key = sf("%s@%d", k, ord[k])
			ord[k]++
		}
		out = append(out, effSink{Sink: s, Frames: frames, key: key})
	}
	for _, s := range sinks {
		expand(s, []frame{{s.Fn, s.Instr.(ssa.Instruction)}}, 0)
	}
	return out
}

// guardedInSomeFrame: the guard (built per frame function, because it refers to
// that function's parameters and values) covers the sink in at least one of its
// frames: every path to the sink crosses it either inside the wrapper or in the caller.
func guardedInSomeFrame(e effSink, guardFor func(f *ssa.Function) func(l Lit) bool) *engine.Witness {
	var last *engine.Witness
	for i := len(e.Frames) - 1; i >= 0; i-- {
		fr := e.Frames[i]
		g := guardFor(fr.Fn)
		if g == nil {
			continue
		}
		w := unguarded(fr.Fn, nil, fr.At, g)
		if w == nil {
			return nil
		}
		if last == nil {
			last = w
		}
	}
	if last == nil {
		last = &engine.Witness{}
	}
	return last
}

// wrappedSinkOf: callee g hands the error of its single sink straight back (a
// thin wrapper whose error result is the sink's error or nil on every return):
// a call to g then fails exactly when that write fails.
func wrappedSinkOf(p *Program, g *ssa.Function) *engine.Sink {
	s := thinWrapperSink(p, g)
	if s == nil {
		return nil
	}
	ei := engine.ErrorResultIndex(g)
	if ei < 0 {
		return nil
	}
	sinkErr := engine.ErrValue(s.Instr)
	for _, b := range engine.BlocksInl(g) {
		for _, in := range b.Instrs {
			rt, ok := in.(*ssa.Return)
			if !ok {
				continue
			}
			v := engine.RetVal(rt, ei)
			if !errIsOneOf(v, sinkErr, s.Instr.Value(), 0) {
				return nil
			}
		}
	}
	return s
}

func errIsOneOf(v, sinkErr ssa.Value, call ssa.Value, d int) bool {
	if v == nil || d > 6 {
		return false
	}
	if c, ok := v.(*ssa.Const); ok && c.IsNil() {
		return true
	}
	if sinkErr != nil && engine.SameValue(v, sinkErr) {
		return true
	}
	if call != nil && v == call {
		return true
	}
	if ex, ok := v.(*ssa.Extract); ok && ex.Tuple == call {
		return true
	}
	if ph, ok := v.(*ssa.Phi); ok {
		for _, e := range ph.Edges {
			if !errIsOneOf(e, sinkErr, call, d+1) {
				return false
			}
		}
		return len(ph.Edges) > 0
	}
	return false
}

// calleeVerbSigs: the write-verb signatures (comma separated, one per acyclic
// path) of a module callee, looking one level further down. Used so that a write
// moved into a helper still counts as that write in the caller's decision table.
var sigCache = map[*ssa.Function][]string{}

func calleeVerbSigs(p *Program, g *ssa.Function, depth int) []string {
	if g == nil || !strings.HasPrefix(FK(g), engine.ModPrefix) || len(g.Blocks) == 0 {
		return nil
	}
	if s, ok := sigCache[g]; ok {
		return s
	}
	sigCache[g] = nil
	isEff := func(in ssa.Instruction) bool {
		ci, ok := in.(ssa.CallInstruction)
		if !ok {
			return false
		}
		k := engine.CallKey(ci.Common())
		if iface, _, ok := engine.ClassifySink(k); ok && iface == "dyn" {
			return true
		}
		if depth > 0 {
			if h := engine.StaticFn(ci.Common()); h != nil && h != g && len(calleeVerbSigs(p, h, depth-1)) > 0 {
				return true
			}
		}
		return false
	}
	paths, err := engine.EnumPaths(g, engine.EnumOpts{Effect: isEff, Max: 2048})
	if err != nil {
		return nil
	}
	set := map[string]bool{}
	any := false
	for _, pa := range paths {
		sigs := []string{""}
		for _, e := range pa.Effects {
			ci := e.(ssa.CallInstruction)
			k := engine.CallKey(ci.Common())
			var alts []string
			if _, verb, ok := engine.ClassifySink(k); ok {
				alts = []string{verb}
			} else {
				alts = calleeVerbSigs(p, engine.StaticFn(ci.Common()), depth-1)
			}
			var nx []string
			for _, s := range sigs {
				for _, a := range alts {
					switch {
					case s == "":
						nx = append(nx, a)
					case a == "":
						nx = append(nx, s)
					default:
						nx = append(nx, s+","+a)
					}
				}
			}
			sigs = nx
		}
		for _, s := range sigs {
			set[s] = true
			if s != "" {
				any = true
			}
		}
	}
	if !any {
		return nil
	}
	out := sortedSet(set)
	sort.Strings(out)
	sigCache[g] = out
	return out
}

// region: an anchored function together with the helpers it was split into —
// unexported module functions of the same package that are only statically
// called and have exactly one call site, which lies in the region.
type region struct {
	p    *Program
	root *ssa.Function
	fns  []*ssa.Function
	site map[*ssa.Function]engine.CallSite
}

func regionOf(p *Program, root *ssa.Function) *region {
	rg := &region{p: p, root: root, fns: []*ssa.Function{root}, site: map[*ssa.Function]engine.CallSite{}}
	for i := 0; i < len(rg.fns) && len(rg.fns) < 8; i++ {
		f := rg.fns[i]
		for _, b := range engine.BlocksInl(f) {
			for _, in := range b.Instrs {
				ci, ok := in.(ssa.CallInstruction)
				if !ok {
					continue
				}
				if _, isGo := in.(*ssa.Go); isGo {
					continue
				}
				g := engine.StaticFn(ci.Common())
				if g == nil || g == root || g.Pkg != root.Pkg || len(g.Blocks) == 0 || rg.site[g].Fn != nil {
					continue
				}
				if !p.OnlyStaticallyCalled(g) || len(p.CallersOf(g)) != 1 {
					continue
				}
				if _, inl := engine.InlineSite(g); inl {
					continue // already folded into its caller by the inline view
				}
				rg.site[g] = engine.CallSite{Fn: f, Instr: ci, Key: engine.CallKey(ci.Common())}
				rg.fns = append(rg.fns, g)
			}
		}
	}
	return rg
}

// calls lists the call sites in the region whose callee key has one of the suffixes.
func (rg *region) calls(sufs ...string) []engine.CallSite {
	var out []engine.CallSite
	for _, f := range rg.fns {
		out = append(out, callsTo(f, false, sufs...)...)
	}
	return out
}

// up resolves a value that is a parameter of a split-off helper to the actual
// argument at the helper's only call site (repeatedly), and looks through loads of
// single-assignment locals.
func (rg *region) up(v ssa.Value) ssa.Value {
	for i := 0; i < 6; i++ {
		par, ok := v.(*ssa.Parameter)
		if !ok {
			return v
		}
		cs, has := rg.site[par.Parent()]
		if !has {
			return v
		}
		a := engine.ActualFor(cs, par)
		if a == nil {
			return v
		}
		v = a
	}
	return v
}

func (rg *region) same(a, b ssa.Value) bool {
	return engine.SameValue(rg.up(a), rg.up(b))
}

// unguarded: is there a path from the region's entry to target that crosses no
// guard edge? The guard may sit in target's own function or, for a split-off
// helper, in front of the helper's call site further up.
func (rg *region) unguarded(target ssa.Instruction, guard func(l Lit) bool) *engine.Witness {
	f := target.Parent()
	var first *engine.Witness
	for i := 0; i < 6; i++ {
		w := unguarded(f, nil, target, guard)
		if w == nil {
			return nil
		}
		if first == nil {
			first = w
		}
		cs, has := rg.site[f]
		if !has {
			return first
		}
		f, target = cs.Fn, cs.Instr.(ssa.Instruction)
	}
	return first
}

// bypass: a path from the region's entry to target that avoids every `through`
// instruction. `through` may lie in target's function or in front of the call
// site of the helper containing target.
func (rg *region) bypass(target ssa.Instruction, through func(in ssa.Instruction) bool) *engine.Witness {
	f := target.Parent()
	var first *engine.Witness
	for i := 0; i < 6; i++ {
		w := bypass(f, target, through)
		if w == nil {
			return nil
		}
		if first == nil {
			first = w
		}
		cs, has := rg.site[f]
		if !has {
			return first
		}
		f, target = cs.Fn, cs.Instr.(ssa.Instruction)
	}
	return first
}

// propagates: the error of call site cs reaches the root's caller: handled by
// errorDiscipline in its own function and, for helpers, at every hop up.
func (rg *region) propagates(cs engine.CallSite) (bool, string) {
	if cs.Fn == nil || cs.Instr == nil {
		return true, "" // the piece is folded into its caller by the inline view: nothing to hand up
	}
	f, ci := cs.Fn, cs.Instr
	for i := 0; i < 6; i++ {
		ok, why := errorDiscipline(rg.p, f, ci, nil, nil)
		if !ok {
			return false, why
		}
		up, has := rg.site[f]
		if !has {
			return true, ""
		}
		f, ci = up.Fn, up.Instr
	}
	return true, ""
}
