package rules

import (
	"go/token"
	"go/types"
	"reflect"
	"sort"
	"strings"

	"mcvet/engine"

	"golang.org/x/tools/go/ssa"
)

func init() {
	Registry["C20"] = checkC20
}

func checkC20(r *Report, p *Program) {
	r.Explanation = "Decides, for both controller kinds: (R20.1) the complete effect table of Reconcile/reconcile*Controller — not found ⇒ Stop then delete, nothing started; other Get error ⇒ returned, map untouched; existing ∧ spec equal ⇒ no effect; existing ∧ different ⇒ Stop → delete → construct → Start → store in this order; constructor error ⇒ returned, no Start, no store; (R20.2) Stop's sequence close(stopCh) → queue.ShutDown → <-doneCh → RemoveEventHandlers+Close of every child/parent informer → customize.Stop, and doneCh is closed only after wg.Wait over all workers; (R20.3) constructors release every informer they acquired on failure (shared with C18); (R20.4) every dereference of an optional (omitempty pointer) v1alpha1 field is dominated by a nil test of the same access path, helper predicates being summarised; (R20.5) every Hook.Call is reachable only across IsEnabled() of the same hook, in the function or at every place its caller chain is entered; (R20.6) metrics collectors are registered only on a cache miss, after the cache entry is stored; (R20.7) no controller is started for a parent CRD without status subresource."
	r.NotDecided = "all create/update/delete histories; that no hook call or write happens after Stop as a runtime fact (only the join structure is decided)."
	r20_1(r, p)
	r20_2(r, p)
	informerAcquireRelease(r, p, "R20.3")
	optionalDerefs(r, p, "R20.4")
	hookEnabled(r, p, "R20.5")
	r20_6(r, p)
	// Stop leaves nothing of the instance behind: handler timers are stopped before their entry is dropped (C18),
	// the per-revision hook goroutines are joined before a sync returns (C17)
	r18_4(r, p)
	r17_3(r, p)
	// the constructors and hook builders do not edit the controller object they are given: the reconciler compares
	// the stored object with the freshly read one to decide whether anything changed
	r20_7(r, p)
	r12_10(r, p)
	// "… and does not take the process down": what a lookup/hook call may answer with nil is tested before use (shared with C13)
	lookupResultsChecked(r, p, "R20.8")
	optionalFieldsChecked(r, p, "R20.9", 10)
	// a start that fails leaves no subscription behind: the factory's reference count table (shared with C18)
	r18_2(r, p)
	etagEnabledTable(r, p, "R20.11")
	webhookURLTable(r, p, "R20.12")
	stopChannelHandedOut(r, p, "R20.13")
	stopDoneProtocol(r, p, "R20.15")
	channelFieldsSetOnlyAtStart(r, p, "R20.18")
	errorValuesUsed(r, p, "R20.16")
	hookWiring(r, p, "R20.17")
	// the reconcilers' error checks mean what they say (a start that is skipped on success, or goes on after a failure)
	errorChecksMeanWhatTheySay(r, p, "R20.10")
}

func r20_1(r *Report, p *Program) {
	const rule = "R20.1"
	r.Rule(rule, "reconcile effect tables, both siblings")
	r.Floor(rule, 6)
	type sib struct{ rec, inner, ctor, mapField string }
	for _, s := range []sib{
		{"controller/composite.Metacontroller.Reconcile", "controller/composite.Metacontroller.reconcileCompositeController", "newParentController", ".parentControllers"},
		{"controller/decorator.Metacontroller.Reconcile", "controller/decorator.Metacontroller.reconcileDecoratorController", "newDecoratorController", ".decoratorControllers"},
	} {
		rec, inner := fn(r, p, rule, s.rec), fn(r, p, rule, s.inner)
		if rec == nil || inner == nil {
			continue
		}
		isEff := func(in ssa.Instruction) bool {
			if mu, ok := in.(*ssa.MapUpdate); ok {
				return strings.HasSuffix(E(mu.Map), s.mapField)
			}
			return isCallTo(in, ".Stop", ".Start", "builtin.delete", "."+s.ctor, "."+methodOf(s.inner))
		}
		effName := func(in ssa.Instruction) string {
			if _, ok := in.(*ssa.MapUpdate); ok {
				return "store"
			}
			k := engine.CallKey(in.(ssa.CallInstruction).Common())
			switch {
			case strings.HasSuffix(k, ".Stop"):
				return "Stop"
			case strings.HasSuffix(k, ".Start"):
				return "Start"
			case k == "builtin.delete":
				return "delete"
			case strings.HasSuffix(k, "."+s.ctor):
				return "construct"
			}
			return "reconcile"
		}
		seqOf := func(pa engine.Path) []string {
			var out []string
			for _, e := range pa.Effects {
				if _, isDefer := e.(*ssa.Defer); isDefer {
					continue
				}
				out = append(out, effName(e))
			}
			return out
		}
		// --- inner
		paths, err := engine.EnumPaths(inner, engine.EnumOpts{Effect: isEff})
		if err != nil {
			r.Fail(rule, FK(inner), p.Pos(inner.Pos()), "undecided", err.Error())
			continue
		}
		exists := func(a string) bool { return strings.HasSuffix(a, s.mapField+"[p1.ObjectMeta.Name]#1") }
		equal := func(a string) bool {
			return strings.Contains(a, "Equalities.DeepEqual)(") && strings.Contains(a, "p1.Spec") && strings.Contains(a, ".Spec)")
		}
		built := func(a string) bool {
			return strings.HasPrefix(a, "(call(controller/") && strings.Contains(a, "."+s.ctor+")(") && strings.HasSuffix(a, "#1 == nil)")
		}
		ok, why := true, ""
		var rows []map[string]string
		cases := map[string]int{}
		for _, pa := range paths {
			rt, isR := pa.End.(*ssa.Return)
			if !isR {
				continue
			}
			seq := strings.Join(seqOf(pa), ",")
			ret := E(engine.RetVal(rt, 0))
			rows = append(rows, map[string]string{"when": pa.Cond(), "effects": seq, "returns": ret})
			ex, eq, bu := val(pa, -1, exists), val(pa, -1, equal), val(pa, -1, built)
			want := ""
			switch {
			case ex == 1 && eq == 1:
				want = ""
				cases["equal"]++
				if ret != "nil" {
					ok, why = false, "unchanged spec returns an error"
				}
			case ex == 1 && eq == -1 && bu == 1:
				want = "Stop,delete,construct,Start,store"
				cases["changed"]++
			case ex == 1 && eq == -1 && bu == -1:
				want = "Stop,delete,construct"
				cases["changed-ctor-fails"]++
				if ret == "nil" {
					ok, why = false, "constructor error is not returned"
				}
			case ex == -1 && bu == 1:
				want = "construct,Start,store"
				cases["new"]++
			case ex == -1 && bu == -1:
				want = "construct"
				cases["new-ctor-fails"]++
				if ret == "nil" {
					ok, why = false, "constructor error is not returned"
				}
			default:
				ok, why = false, "path does not decide existing/equal/constructed: ["+pa.Cond()+"]"
			}
			if seq != want && ok {
				ok, why = false, sf("on [%s] effects are [%s], want [%s]", pa.Cond(), seq, want)
			}
		}
		if len(cases) < 5 {
			ok, why = false, sf("table incomplete: only cases %v", reflect.ValueOf(cases).MapKeys())
		}
		r.Table("R20.1 "+Short(FK(inner)), rows)
		r.Check(rule, FK(inner)+"[table]", p.Pos(inner.Pos()), ok, "equal⇒nothing; changed⇒Stop→delete→construct→Start→store; ctor error⇒returned, nothing started", why)
		// operands
		okO, whyO := true, ""
		for _, b := range engine.BlocksInl(inner) {
			for _, in := range b.Instrs {
				switch x := in.(type) {
				case *ssa.MapUpdate:
					if strings.HasSuffix(E(x.Map), s.mapField) {
						if E(x.Key) != "p1.ObjectMeta.Name" || !strings.Contains(E(x.Value), "."+s.ctor+")(") {
							okO, whyO = false, "stores "+E(x.Value)+" under "+E(x.Key)
						}
					}
				case *ssa.Call:
					k := engine.CallKey(x.Common())
					if k == "builtin.delete" && E(x.Common().Args[1]) != "p1.ObjectMeta.Name" {
						okO, whyO = false, "deletes key "+E(x.Common().Args[1])
					}
					if strings.HasSuffix(k, ".Stop") && !strings.HasSuffix(E(x.Common().Args[0]), s.mapField+"[p1.ObjectMeta.Name]#0") {
						okO, whyO = false, "stops "+E(x.Common().Args[0])+", not the instance registered under this name"
					}
					if strings.HasSuffix(k, ".Start") && !strings.Contains(E(x.Common().Args[0]), "."+s.ctor+")(") {
						okO, whyO = false, "starts "+E(x.Common().Args[0])
					}
					if strings.HasSuffix(k, "."+s.ctor) {
						found := false
						for _, a := range x.Common().Args {
							if E(a) == "p1" {
								found = true
							}
						}
						if !found {
							okO, whyO = false, "constructor is not given the controller object being reconciled"
						}
					}
				}
			}
		}
		r.Check(rule, FK(inner)+"[operands]", p.Pos(inner.Pos()), okO, "Stop/delete/store act on the instance registered under cc.Name; Start on the new one", whyO)
		// --- Reconcile
		paths, err = engine.EnumPaths(rec, engine.EnumOpts{Effect: isEff})
		if err != nil {
			r.Fail(rule, FK(rec), p.Pos(rec.Pos()), "undecided", err.Error())
			continue
		}
		notFound := func(a string) bool { return strings.HasPrefix(a, "call(apierrors.IsNotFound)(") }
		getFailed := func(a string) bool {
			return strings.HasSuffix(a, " == nil)") && strings.Contains(a, "client.Reader.Get)(p0.k8sClient") && strings.Contains(a, ".NamespacedName,")
		}
		registered := func(a string) bool {
			return strings.HasPrefix(a, "p0"+s.mapField+"[") && strings.HasSuffix(a, ".NamespacedName.Name]#1")
		}
		ok2, why2 := true, ""
		nNF, nErr, nGo := 0, 0, 0
		for _, pa := range paths {
			rt, isR := pa.End.(*ssa.Return)
			if !isR {
				continue
			}
			seq := strings.Join(seqOf(pa), ",")
			nf := val(pa, -1, notFound)
			switch {
			case nf == 1:
				nNF++
				reg := val(pa, -1, registered)
				if reg == 1 && seq != "Stop,delete" || reg == -1 && seq != "" || reg == 0 {
					ok2, why2 = false, sf("deleted controller object: effects [%s] on [%s]; want Stop,delete iff registered", seq, pa.Cond())
				}
				if E(engine.RetVal(rt, 1)) != "nil" {
					ok2, why2 = false, "deletion is reported as an error"
				}
			case nf == -1 && val(pa, -1, getFailed) == -1:
				nErr++
				if seq != "" || E(engine.RetVal(rt, 1)) == "nil" {
					ok2, why2 = false, sf("Get error: effects [%s], returns %s; want no effect and the error", seq, E(engine.RetVal(rt, 1)))
				}
			default:
				if strings.Contains(seq, "reconcile") {
					nGo++
				}
				if strings.Contains(seq, "Stop") || strings.Contains(seq, "delete") {
					ok2, why2 = false, "Reconcile stops/deletes outside the not-found branch"
				}
			}
		}
		if nNF < 2 || nErr < 1 || nGo < 1 {
			ok2, why2 = false, sf("table incomplete (notfound=%d geterror=%d reconcile=%d)", nNF, nErr, nGo)
		}
		r.Check(rule, FK(rec)+"[table]", p.Pos(rec.Pos()), ok2, "not found ⇒ Stop+delete iff registered; Get error ⇒ returned untouched; else reconcile", why2)
		// result of the inner reconcile is returned
		okR := false
		for _, cs := range callsTo(rec, false, "."+methodOf(s.inner)) {
			okk, _ := errorDiscipline(p, rec, cs.Instr, nil, nil)
			okR = okk
		}
		r.Check(rule, FK(rec)+"[inner-error-returned]", p.Pos(rec.Pos()), okR, "reconcile error returned to controller-runtime", "the error of "+methodOf(s.inner)+" is not returned")
	}
	// single-threaded reconcile assumption: no controller.Options literal sets MaxConcurrentReconciles
	okM := true
	for _, f := range p.Scanned {
		for _, b := range engine.BlocksInl(f) {
			for _, in := range b.Instrs {
				if st, ok := in.(*ssa.Store); ok && strings.HasSuffix(E(st.Addr), ".MaxConcurrentReconciles") {
					if c, isC := st.Val.(*ssa.Const); !isC || c.Int64() > 1 {
						okM = false
					}
				}
			}
		}
	}
	r.Check(rule, "controller.Options[MaxConcurrentReconciles]", "-", okM, "Reconcile of one kind is never run concurrently (default 1): the unlocked controller map is single-threaded", "MaxConcurrentReconciles is raised: the controller map is accessed without a lock")
}

func r20_2(r *Report, p *Program) {
	const rule = "R20.2"
	r.Rule(rule, "Stop joins the workers before releasing informers")
	r.Floor(rule, 6)
	for _, pk := range []string{"controller/composite.parentController", "controller/decorator.decoratorController"} {
		stop, start := fn(r, p, rule, pk+".Stop"), fn(r, p, rule, pk+".Start")
		if stop == nil || start == nil {
			continue
		}
		// the stop channel is the receiver field Stop closes, the done channel the one it then waits on (whatever they are called)
		stopName, doneName := "p0.stopCh", "p0.doneCh"
		for _, b := range engine.BlocksInl(stop) {
			for _, in := range b.Instrs {
				switch x := in.(type) {
				case *ssa.Call:
					if engine.CallKey(x.Common()) == "builtin.close" && strings.HasPrefix(E(x.Common().Args[0]), "p0.") {
						stopName = E(x.Common().Args[0])
					}
				case *ssa.UnOp:
					if x.Op == token.ARROW && strings.HasPrefix(E(x.X), "p0.") {
						doneName = E(x.X)
					}
				}
			}
		}
		var closeStop, shut, wait ssa.Instruction
		for _, b := range engine.BlocksInl(stop) {
			for _, in := range b.Instrs {
				switch x := in.(type) {
				case *ssa.Call:
					k := engine.CallKey(x.Common())
					if k == "builtin.close" && E(x.Common().Args[0]) == stopName {
						closeStop = in
					}
					if strings.HasSuffix(k, ".ShutDown") && strings.HasSuffix(E(x.Common().Value), "p0.queue") {
						shut = in
					}
				case *ssa.UnOp:
					if x.Op == token.ARROW && E(x.X) == doneName {
						wait = in
					}
				}
			}
		}
		ok, why := closeStop != nil && shut != nil && wait != nil, "Stop lacks close(stopCh) / queue.ShutDown() / <-doneCh"
		if ok {
			if bypass(stop, shut, func(in ssa.Instruction) bool { return in == closeStop }) != nil {
				ok, why = false, "queue.ShutDown before close(stopCh)"
			}
			if bypass(stop, wait, func(in ssa.Instruction) bool { return in == shut }) != nil {
				ok, why = false, "<-doneCh not preceded by queue.ShutDown: workers blocked in Get never return"
			}
		}
		r.Check(rule, FK(stop)+"[close→ShutDown→<-doneCh]", p.Pos(stop.Pos()), ok, "signal, drain, then join", why)
		// every informer release and customize.Stop after the join
		n := 0
		for _, cs := range callsTo(stop, false, "SharedIndexInformer.RemoveEventHandlers", "ResourceInformer.Close", "customize.Manager.Stop") {
			n++
			okJ := wait != nil && bypass(stop, cs.Instr.(ssa.Instruction), func(in ssa.Instruction) bool { return in == wait }) == nil
			r.Check(rule, sf("%s→%s#%d[after-join]", FK(stop), methodOf(cs.Key), n), p.InstrPos(cs.Instr), okJ, "released only after all workers have exited", "informer/handler released while workers may still be running")
		}
		// each informer field that Start/constructor uses is released: loops over childInformers and parentInformer(s)
		fields := map[string]bool{}
		for _, cs := range callsTo(stop, false, "ResourceInformer.Close") {
			x := E(cs.Recv())
			for _, fld := range []string{"childInformers", "parentInformers", "parentInformer"} {
				if strings.Contains(x, "p0."+fld) {
					fields[fld] = true
				}
			}
		}
		rem := map[string]bool{}
		for _, cs := range callsTo(stop, false, "SharedIndexInformer.RemoveEventHandlers") {
			x := E(cs.Recv())
			for _, fld := range []string{"childInformers", "parentInformers", "parentInformer"} {
				if strings.Contains(x, "p0."+fld) {
					rem[fld] = true
				}
			}
		}
		okF := fields["childInformers"] && (fields["parentInformers"] || fields["parentInformer"]) && reflect.DeepEqual(fields, rem)
		r.Check(rule, FK(stop)+"[all-informers-released]", p.Pos(stop.Pos()), okF, sf("RemoveEventHandlers+Close on %v", sortedSet(fields)), sf("Stop closes %v and removes handlers of %v: child and parent informers must both be released, handlers first", sortedSet(fields), sortedSet(rem)))
		okC := len(callsTo(stop, false, "customize.Manager.Stop")) == 1
		r.Check(rule, FK(stop)+"[customize.Stop]", p.Pos(stop.Pos()), okC, "related informers released via customize.Stop", "Stop does not stop the customize manager (related informers leak)")
		// Start: doneCh closed by defer in the goroutine, after wg.Wait over workers
		var g *ssa.Function
		for _, cl := range engine.Closures(start) {
			for _, b := range engine.BlocksInl(cl) {
				for _, in := range b.Instrs {
					if d, ok := in.(*ssa.Defer); ok && engine.CallKey(d.Common()) == "builtin.close" && strings.HasSuffix(E(d.Common().Args[0]), strings.TrimPrefix(doneName, "p0")) {
						g = cl
					}
				}
			}
		}
		okS, whyS := g != nil, "doneCh is not closed by a defer in the goroutine Start launches"
		if okS {
			waits := callsTo(g, false, "sync.WaitGroup.Wait")
			adds := callsTo(g, false, "sync.WaitGroup.Add")
			if len(waits) != 1 || len(adds) < 1 {
				okS, whyS = false, "worker goroutines are not joined with a WaitGroup before doneCh closes"
			}
			// workers: go func with defer wg.Done and wait.Until(worker)
			nw := 0
			for _, cl := range engine.Closures(g) {
				if len(callsTo(cl, false, "wait.Until")) == 1 {
					nw++
					hasDone := false
					for _, b := range engine.BlocksInl(cl) {
						for _, in := range b.Instrs {
							if d, ok := in.(*ssa.Defer); ok && strings.HasSuffix(engine.CallKey(d.Common()), "WaitGroup.Done") {
								hasDone = true
							}
						}
					}
					if !hasDone {
						okS, whyS = false, "worker goroutine does not defer wg.Done()"
					}
					u := callsTo(cl, false, "wait.Until")[0]
					if !strings.HasSuffix(E(u.Common().Args[2]), strings.TrimPrefix(stopName, "p0")) {
						okS, whyS = false, "worker loop is not bound to stopCh"
					}
				}
			}
			if nw != 1 {
				okS, whyS = false, "no worker goroutine found under the WaitGroup"
			}
			if okS {
				// Add precedes go: the Add call dominates the Go instruction in the loop
				for _, b := range engine.BlocksInl(g) {
					for _, in := range b.Instrs {
						if gi, isGo := in.(*ssa.Go); isGo {
							if bypass(g, gi, func(x ssa.Instruction) bool { return isCallTo(x, "sync.WaitGroup.Add") }) != nil {
								okS, whyS = false, "worker started before wg.Add"
							}
						}
					}
				}
			}
		}
		r.Check(rule, FK(start)+"[doneCh-after-workers]", p.Pos(start.Pos()), okS, "doneCh closes only after wg.Wait over all workers", whyS)
	}
	if cs := fn(r, p, rule, "controller/common/customize.Manager.Stop"); cs != nil {
		okR := len(callsTo(cs, false, "SharedIndexInformer.RemoveEventHandlers")) == 1 && len(callsTo(cs, false, "ResourceInformer.Close")) == 1 &&
			len(engine.LoopOver(cs, func(x string) bool { return x == "p0.relatedInformers" })) == 1
		r.Check(rule, FK(cs), p.Pos(cs.Pos()), okR, "every related informer: RemoveEventHandlers + Close", "customize.Stop does not release every related informer")
	}
}

// ---- R20.4: optional pointer fields ----

func optionalFields(p *Program) map[string]bool {
	out := map[string]bool{}
	for _, pk := range p.Pkgs {
		if pk.PkgPath != v1alpha1Pkg {
			continue
		}
		sc := pk.Types.Scope()
		for _, n := range sc.Names() {
			tn, ok := sc.Lookup(n).(*types.TypeName)
			if !ok {
				continue
			}
			st, ok := tn.Type().Underlying().(*types.Struct)
			if !ok {
				continue
			}
			for i := 0; i < st.NumFields(); i++ {
				f := st.Field(i)
				if _, isPtr := f.Type().Underlying().(*types.Pointer); !isPtr {
					continue
				}
				if strings.Contains(reflect.StructTag(st.Tag(i)).Get("json"), "omitempty") {
					out[tn.Name()+"."+f.Name()] = true
				}
			}
		}
	}
	return out
}

// nonNilSummary: for a module function with bool result, the access paths
// (renderings relative to its parameters, e.g. "p0.Etag") that are tested
// non-nil on every path returning true.
func nonNilSummary(f *ssa.Function) []string {
	if f == nil || f.Signature.Results().Len() != 1 || !isBoolT(f.Signature.Results().At(0).Type()) {
		return nil
	}
	paths, err := engine.EnumPaths(f, engine.EnumOpts{Max: 512})
	if err != nil {
		return nil
	}
	var common map[string]bool
	for _, pa := range paths {
		rt, isR := pa.End.(*ssa.Return)
		if !isR {
			continue
		}
		_ = rt
		ret := pa.Ret[0]
		lits := pa.Lits
		if c, isC := ret.(*ssa.Const); isC {
			if c.Value.String() != "true" {
				continue
			}
		} else {
			// returns an expression: true only if it holds — add it as a literal
			lits = append(append([]Lit{}, lits...), engine.CondLit(ret, true))
		}
		set := map[string]bool{}
		for _, l := range lits {
			if v, isNil, ok := l.NilTest(); ok && !isNil {
				set[E(v)] = true
			}
		}
		if common == nil {
			common = set
		} else {
			for k := range common {
				if !set[k] {
					delete(common, k)
				}
			}
		}
	}
	return sortedSet(common)
}

func optionalDerefs(r *Report, p *Program, rule string) {
	r.Rule(rule, "every dereference of an optional (omitempty pointer) v1alpha1 field is dominated by a non-nil test of the same access path (directly or via a summarised boolean helper)")
	r.Floor(rule, 14)
	opt := optionalFields(p)
	if len(opt) < 10 {
		r.Fail(rule, "v1alpha1 optional fields", "-", "anchor-lost", sf("only %d optional pointer fields found in v1alpha1", len(opt)))
		return
	}
	summaries := map[*ssa.Function][]string{}
	ord := map[string]int{}
	for _, f := range p.Scanned {
		if strings.Contains(FK(f), "/v1alpha1.") {
			continue
		}
		for _, b := range engine.BlocksInl(f) {
			for _, in := range b.Instrs {
				// a dereference of v: *v, &v.F, v[i]
				var ptr ssa.Value
				switch x := in.(type) {
				case *ssa.UnOp:
					if x.Op == token.MUL {
						ptr = x.X
					}
				case *ssa.FieldAddr:
					ptr = x.X
				}
				if ptr == nil {
					continue
				}
				// ptr must itself be the value of an optional field: ptr = *(&base.F)
				ld, ok := ptr.(*ssa.UnOp)
				if !ok || ld.Op != token.MUL {
					continue
				}
				fa, ok := ld.X.(*ssa.FieldAddr)
				if !ok {
					continue
				}
				owner := deref(fa.X.Type())
				nm, isNamed := types.Unalias(owner).(*types.Named)
				if !isNamed {
					continue
				}
				fname := fieldNameOf(owner, fa.Field)
				if !opt[nm.Obj().Name()+"."+fname] || nm.Obj().Pkg() == nil || nm.Obj().Pkg().Path() != v1alpha1Pkg {
					continue
				}
				path := E(ptr)
				key := Short(FK(f)) + "→*" + nm.Obj().Name() + "." + fname
				c := sf("%s#%d", key, ord[key])
				ord[key]++
				w := unguarded(f, nil, in, func(l Lit) bool {
					if v, isNil, ok := l.NilTest(); ok && !isNil && E(v) == path {
						return true
					}
					// helper predicate
					if call, isC := l.Cond.(*ssa.Call); isC && l.Pos {
						g := engine.StaticFn(call.Common())
						if g == nil || !strings.HasPrefix(FK(g), engine.ModPrefix) {
							return false
						}
						sum, has := summaries[g]
						if !has {
							sum = nonNilSummary(g)
							summaries[g] = sum
						}
						for _, s := range sum {
							// substitute parameters by the actual arguments' renderings
							inst := s
							for i, a := range call.Common().Args {
								inst = strings.ReplaceAll(inst, sf("p%d", i), "\x00"+E(a)+"\x00")
							}
							inst = strings.ReplaceAll(inst, "\x00", "")
							if inst == path {
								return true
							}
						}
					}
					return false
				})
				r.Check(rule, c, p.InstrPos(in), w == nil, "guarded by "+path+" != nil", "optional field "+nm.Obj().Name()+"."+fname+" ("+path+") is dereferenced on a path that has not tested it for nil; "+pathWhy(w))
			}
		}
	}
	var rows []map[string]interface{}
	var fs []*ssa.Function
	for g := range summaries {
		fs = append(fs, g)
	}
	sort.Slice(fs, func(i, j int) bool { return FK(fs[i]) < FK(fs[j]) })
	for _, g := range fs {
		if len(summaries[g]) > 0 {
			rows = append(rows, map[string]interface{}{"helper": Short(FK(g)), "true_implies_non_nil": summaries[g]})
		}
	}
	r.Table(rule+" helper summaries", rows)
}

func deref(t types.Type) types.Type {
	if pt, ok := t.Underlying().(*types.Pointer); ok {
		return pt.Elem()
	}
	return t
}

func fieldNameOf(t types.Type, i int) string {
	if st, ok := t.Underlying().(*types.Struct); ok && i < st.NumFields() {
		return st.Field(i).Name()
	}
	return "?"
}

// ---- R20.5: hook typestate ----

// enabledSummary: module bool functions whose every true-returning path crosses
// Hook.IsEnabled() on a receiver field; returns that field's name ("" if none).
func enabledSummary(f *ssa.Function) string {
	if f == nil || f.Signature.Results().Len() != 1 || !isBoolT(f.Signature.Results().At(0).Type()) {
		return ""
	}
	paths, err := engine.EnumPaths(f, engine.EnumOpts{Max: 256})
	if err != nil {
		return ""
	}
	field := ""
	n := 0
	for _, pa := range paths {
		rt, isR := pa.End.(*ssa.Return)
		if !isR {
			continue
		}
		_ = rt
		ret := pa.Ret[0]
		lits := pa.Lits
		if c, isC := ret.(*ssa.Const); isC {
			if c.Value.String() != "true" {
				continue
			}
		} else {
			lits = append(append([]Lit{}, lits...), engine.CondLit(ret, true))
		}
		n++
		got := ""
		for _, l := range lits {
			if l.Pos && strings.HasPrefix(l.Atom, "call(hooks.Hook.IsEnabled)(p0.") {
				got = strings.TrimSuffix(strings.TrimPrefix(l.Atom, "call(hooks.Hook.IsEnabled)(p0."), ")")
			}
		}
		if got == "" || field != "" && got != field {
			return ""
		}
		field = got
	}
	if n == 0 {
		return ""
	}
	return field
}

func hookEnabled(r *Report, p *Program, rule string) {
	r.Rule(rule, "Hook.Call only across IsEnabled() of the same hook — in the function, or at every entry into its caller chain")
	r.Floor(rule, 5)
	g := p.CG()
	in := map[*ssa.Function][]*ssa.Function{}
	for f, outs := range g.Out {
		for _, t := range outs {
			in[t] = append(in[t], f)
		}
	}
	sums := map[*ssa.Function]string{}
	guardFor := func(field string) func(l Lit) bool {
		return func(l Lit) bool {
			if !l.Pos {
				return false
			}
			if strings.HasPrefix(l.Atom, "call(hooks.Hook.IsEnabled)(") && strings.HasSuffix(l.Atom, "."+field+")") {
				return true
			}
			if c, isC := l.Cond.(*ssa.Call); isC {
				if gf := engine.StaticFn(c.Common()); gf != nil && strings.HasPrefix(FK(gf), engine.ModPrefix) {
					s, has := sums[gf]
					if !has {
						s = enabledSummary(gf)
						sums[gf] = s
					}
					return s == field
				}
			}
			return false
		}
	}
	// guardedAt: every path to instruction `at` in f crosses the guard, or f is only entered from guarded places
	var guardedFn func(f *ssa.Function, field string, depth int, seen map[*ssa.Function]bool) (bool, string)
	guardedAt := func(f *ssa.Function, at ssa.Instruction, field string, depth int, seen map[*ssa.Function]bool) (bool, string) {
		if unguarded(f, nil, at, guardFor(field)) == nil {
			return true, ""
		}
		return guardedFn(f, field, depth, seen)
	}
	guardedFn = func(f *ssa.Function, field string, depth int, seen map[*ssa.Function]bool) (bool, string) {
		if depth > 5 || seen[f] {
			return false, "call chain too deep / recursive at " + Short(FK(f))
		}
		seen[f] = true
		defer delete(seen, f)
		callers := in[f]
		if len(callers) == 0 {
			return false, Short(FK(f)) + " has no callers in the module (entry point) and does not test " + field + ".IsEnabled()"
		}
		for _, c := range callers {
			// all reference/call sites of f in c
			found := false
			for _, b := range engine.BlocksInl(c) {
				for _, ins := range b.Instrs {
					refs := false
					for _, op := range ins.Operands(nil) {
						if op == nil || *op == nil {
							continue
						}
						switch v := (*op).(type) {
						case *ssa.Function:
							refs = refs || v == f || lookThrough(v) == f
						case *ssa.MakeClosure:
							if fn2, ok := v.Fn.(*ssa.Function); ok {
								refs = refs || fn2 == f || lookThrough(fn2) == f
							}
						}
					}
					if ci, ok := ins.(ssa.CallInstruction); ok && !refs {
						for _, t := range p.CalleesOf(ci) {
							if t == f {
								refs = true
							}
						}
					}
					if mc, ok := ins.(*ssa.MakeClosure); ok && (mc.Fn == ssa.Value(f)) {
						refs = true
					}
					if !refs {
						continue
					}
					found = true
					if ok, why := guardedAt(c, ins, field, depth+1, seen); !ok {
						if why == "" {
							why = "unguarded in " + Short(FK(c))
						}
						return false, Short(FK(f)) + " ← " + why
					}
				}
			}
			if !found {
				// reference through a wrapper we cannot see: be conservative
				return false, "cannot locate where " + Short(FK(c)) + " enters " + Short(FK(f))
			}
		}
		return true, ""
	}
	n := 0
	for _, f := range p.Scanned {
		if strings.HasPrefix(FK(f), "metacontroller/pkg/hooks.") {
			continue // the Hook implementation itself
		}
		for _, cs := range callsTo(f, false, "hooks.Hook.Call") {
			n++
			recv := E(cs.Recv())
			field := recv[strings.LastIndex(recv, ".")+1:]
			ok, why := guardedAt(f, cs.Instr.(ssa.Instruction), field, 0, map[*ssa.Function]bool{})
			if !ok {
				why = "hook " + recv + " is called without a dominating " + field + ".IsEnabled(): a controller whose " + field + " is not configured (nil executor) panics the worker; chain: " + why
			}
			r.Check(rule, sf("%s→Hook.Call(%s)", FK(f), field), p.InstrPos(cs.Instr), ok, field+".IsEnabled() established", why)
		}
	}
	if n < 5 {
		r.Fail(rule, "Hook.Call sites", "-", "anchor-lost", sf("found %d Hook.Call sites, expected >= 5", n))
	}
	// IsEnabled ⇔ executor present
	if f := fn(r, p, rule, "hooks.hookExecutorImpl.IsEnabled"); f != nil {
		ok := false
		for _, b := range engine.BlocksInl(f) {
			for _, ins := range b.Instrs {
				if rt, isR := ins.(*ssa.Return); isR {
					s := E(rt.Results[0])
					ok = s == "(p0.webhookExecutor != nil)" || s == "!(p0.webhookExecutor == nil)"
				}
			}
		}
		r.Check(rule, FK(f), p.Pos(f.Pos()), ok, "IsEnabled ⇔ executor != nil", "Hook.IsEnabled no longer means 'an executor exists'")
	}
}

func lookThrough(f *ssa.Function) *ssa.Function {
	for i := 0; i < 3 && f != nil && f.Synthetic != "" && f.Syntax() == nil; i++ {
		var callee *ssa.Function
		n := 0
		for _, b := range engine.BlocksInl(f) {
			for _, in := range b.Instrs {
				if ci, ok := in.(ssa.CallInstruction); ok {
					if t := engine.StaticFn(ci.Common()); t != nil {
						callee = t
						n++
					}
				}
			}
		}
		if n != 1 {
			return f
		}
		f = callee
	}
	return f
}

func r20_6(r *Report, p *Program) {
	const rule = "R20.6"
	r.Rule(rule, "metrics collectors registered only on a cache miss, after the entry is cached")
	r.Floor(rule, 1)
	f := fn(r, p, rule, "metrics.getOrCreateMetrics")
	if f == nil {
		return
	}
	regs := callsTo(f, false, "prometheus.Registerer.Register")
	sets := callsTo(f, false, "cache.Cache.SetNoExpiration", "cache.Cache.Set")
	gets := callsTo(f, false, "cache.Cache.Get")
	ok, why := len(regs) == 1 && len(sets) == 1 && len(gets) == 1, "expected one Get, one Set and one Register"
	if ok {
		found := engine.ResultValue(gets[0].Instr, 1)
		w := unguarded(f, nil, regs[0].Instr.(ssa.Instruction), func(l Lit) bool { return !l.Pos && engine.SameValue(l.Cond, found) })
		if w != nil {
			ok, why = false, "Register reachable on a cache hit (duplicate registration error on every controller restart)"
		}
		if E(gets[0].Arg(0)) != E(sets[0].Arg(0)) {
			ok, why = false, "cache read and written under different keys"
		}
		if bypass(f, regs[0].Instr.(ssa.Instruction), func(in ssa.Instruction) bool { return in == sets[0].Instr.(ssa.Instruction) }) != nil {
			ok, why = false, "Register not preceded by caching the collectors"
		}
	}
	r.Check(rule, FK(f), p.Pos(f.Pos()), ok, "Register ⇔ cache miss", why)
}

// r20_7: "unchanged spec ⇒ instance kept" is decided by comparing the stored
// controller object with the one just read. Anything that defaults or normalises
// fields IN PLACE in the stored object (an invalid timeout rewritten to 10s) makes
// the two differ for ever: every no-op update stops and restarts the instance.
func r20_7(r *Report, p *Program) {
	const rule = "R20.7"
	r.Rule(rule, "newParentController/newDecoratorController, hooks.NewHook and the webhook builders never mutate (transitively) the controller object / Hook / Webhook they are handed")
	r.Floor(rule, 4)
	type tgt struct {
		key string
		par int
	}
	for _, t := range []tgt{{"controller/composite.newParentController", 6}, {"controller/decorator.newDecoratorController", 5},
		{"hooks.NewHook", 0}, {"hooks.NewWebhookExecutor", 0}, {"hooks.webhookTimeout", 0}, {"hooks.webhookURL", 0}} {
		f := p.Func(t.key)
		if f == nil {
			r.Fail(rule, t.key, "-", "anchor-lost", "function not found")
			continue
		}
		// the parameter that carries the API object: by type
		idx := -1
		for i, prm := range f.Params {
			ts := prm.Type().String()
			if strings.HasSuffix(ts, "v1alpha1.CompositeController") || strings.HasSuffix(ts, "v1alpha1.DecoratorController") || strings.HasSuffix(ts, "v1alpha1.Hook") || strings.HasSuffix(ts, "v1alpha1.Webhook") {
				idx = i
			}
		}
		if idx < 0 {
			r.Fail(rule, t.key, p.Pos(f.Pos()), "anchor-lost", "no controller/Hook/Webhook parameter")
			continue
		}
		muts := p.Mutations(f, f.Params[idx])
		why := ""
		if len(muts) > 0 {
			why = sf("the %s it is given is modified in place (%s at %s): the stored controller object then differs from the API object it was read from, so the reconciler's 'spec unchanged' comparison fails on every event and the running instance is stopped and restarted each time", E(f.Params[idx]), muts[0].What, p.InstrPos(muts[0].Instr))
		}
		r.Check(rule, FK(f)+"[spec-unmodified]", p.Pos(f.Pos()), len(muts) == 0, "the configuration object is only read", why)
	}
}
