package rules

import (
	"strings"

	"golang.org/x/tools/go/ssa"

	"mcvet/engine"
)

// objectMapContracts (shared: C03 R03.11, C07, C08, C09): the two child-map
// types are what every lookup, overlay and claim goes through. Their finders and
// replacers are checked in both directions — the result/effect happens exactly
// under the stated condition — because nothing else in the rule set notices a
// finder that finds the wrong thing or nothing at all (the test suite does not).
func objectMapContracts(r *Report, p *Program, rule string) {
	r.Rule(rule, "FindGroupKindName returns an object ⇔ its group-kind equals the one asked for ∧ its key equals the name asked for; ReplaceObjectIfExists stores obj under its own key ⇔ the group exists ∧ the key exists")
	r.Floor(rule, 4)
	for _, key := range []string{"controller/common/api/v1.RelativeObjectMap.FindGroupKindName", "controller/common/api/v2.UniformObjectMap.FindGroupKindName"} {
		f := fn(r, p, rule, key)
		if f == nil {
			continue
		}
		ok, why := true, ""
		loops := engine.RangeLoops(f)
		var outer *engine.RangeLoop
		for _, l := range loops {
			if E(l.X) == "p0" {
				outer = l
			}
		}
		if outer == nil {
			r.Check(rule, FK(f), p.Pos(f.Pos()), false, "", "does not range over the map")
			continue
		}
		paths, err := engine.EnumPaths(f, engine.EnumOpts{Start: outer.Body, Leave: func(b *ssa.BasicBlock) bool { return b == outer.Header || b == outer.Exit }})
		if err != nil {
			r.Check(rule, FK(f), p.Pos(f.Pos()), false, "", err.Error())
			continue
		}
		gkEq := func(a string) bool {
			return strings.Contains(a, "GroupVersionKind.GroupKind)(") && strings.HasSuffix(a, " == p1)") || strings.HasPrefix(a, "(p1 == ") && strings.Contains(a, "GroupVersionKind.GroupKind)(")
		}
		nameEq := func(a string) bool {
			// v1: (n == name) over the inner range key; v2: objects[name] found (#1)
			return strings.HasSuffix(a, " == p2)") || strings.HasPrefix(a, "(p2 == ") || strings.HasSuffix(a, "[p2]#1")
		}
		nRet := 0
		for _, pa := range paths {
			g, n := val(pa, -1, gkEq), val(pa, -1, nameEq)
			rt, isR := pa.End.(*ssa.Return)
			if isR {
				c, isC := engine.RetVal(rt, 0).(*ssa.Const)
				if isC && c.IsNil() {
					if g == 1 && n == 1 {
						ok, why = false, "returns nil although group-kind and name match: ["+pa.Cond()+"]"
					}
					continue
				}
				nRet++
				if g != 1 || n != 1 {
					ok, why = false, "returns an object without having established group-kind == gk ∧ key == name: ["+pa.Cond()+"]"
				}
				// the object returned is the entry under that key
				if v := E(engine.RetVal(rt, 0)); !strings.Contains(v, "[p2]") && !strings.Contains(v, "next(range(") {
					ok, why = false, "returns "+v+", not the map entry"
				}
				continue
			}
			// goes on to the next entry: only if no match
			if g == 1 && n == 1 {
				ok, why = false, "a matching entry is skipped: ["+pa.Cond()+"]"
			}
		}
		if nRet == 0 {
			ok, why = false, "can never return an object"
		}
		// after the loop: nil
		for _, b := range engine.BlocksInl(f) {
			for _, in := range b.Instrs {
				if rt, isR := in.(*ssa.Return); isR && !outer.Contains(in) {
					if c, isC := engine.RetVal(rt, 0).(*ssa.Const); !isC || !c.IsNil() {
						inner := false
						for _, l := range loops {
							inner = inner || l.Contains(in)
						}
						if !inner {
							ok, why = false, "returns a non-nil object when nothing matched"
						}
					}
				}
			}
		}
		r.Check(rule, FK(f), p.Pos(f.Pos()), ok, "object ⇔ group-kind match ∧ key match; else nil", why)
	}
	for _, key := range []string{"controller/common/api/v1.RelativeObjectMap.ReplaceObjectIfExists", "controller/common/api/v2.UniformObjectMap.ReplaceObjectIfExists"} {
		f := fn(r, p, rule, key)
		if f == nil {
			continue
		}
		paths, err := engine.EnumPaths(f, engine.EnumOpts{Effect: func(in ssa.Instruction) bool { _, isMU := in.(*ssa.MapUpdate); return isMU }})
		ok, why := err == nil, ""
		nStore := 0
		for _, pa := range paths {
			keyFound := val(pa, -1, func(a string) bool {
				return strings.HasPrefix(a, "p0[") && strings.Contains(a, "Name)(") && strings.HasSuffix(a, "]#1")
			}) == 1
			// a lookup cannot succeed in a map that the same path established to be nil, empty or absent
			infeasible := false
			for _, l := range pa.Lits {
				if !l.Pos || !strings.HasPrefix(l.Atom, "p0[") || !strings.HasSuffix(l.Atom, "]#1") || !strings.Contains(l.Atom, "Name)(") {
					continue
				}
				g := l.Atom[:strings.LastIndex(l.Atom, "[")] // the group's map
				for _, m := range pa.Lits {
					switch {
					case m.Pos && m.Atom == "("+g+" == nil)":
						infeasible = true
					case m.Pos && m.Atom == "(call(builtin.len)("+g+") == 0)":
						infeasible = true
					case !m.Pos && strings.HasSuffix(g, "#0") && m.Atom == strings.TrimSuffix(g, "#0")+"#1":
						infeasible = true
					}
				}
			}
			if infeasible {
				continue
			}
			switch len(pa.Effects) {
			case 0:
				if keyFound {
					ok, why = false, "an existing entry is not replaced: ["+pa.Cond()+"]"
				}
			case 1:
				nStore++
				mu := pa.Effects[0].(*ssa.MapUpdate)
				if !keyFound {
					ok, why = false, "stores although the key does not exist in the object's group (an object is ADDED to the map): ["+pa.Cond()+"]"
				}
				if E(mu.Value) != "p2" {
					ok, why = false, "stores "+E(mu.Value)+", not the object given"
				}
				if k := E(mu.Key); !strings.Contains(k, "Name)(") || !strings.Contains(k, "p2") {
					ok, why = false, "stores under "+k+", not under the object's own key"
				}
			default:
				ok, why = false, "several stores on one path"
			}
		}
		if nStore == 0 {
			ok, why = false, "never replaces anything"
		}
		r.Check(rule, FK(f), p.Pos(f.Pos()), ok, "objects[key(obj)] = obj ⇔ the key exists in the object's group", why)
	}
}
