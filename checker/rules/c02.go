package rules

import (
	"strings"

	"mcvet/engine"

	"golang.org/x/tools/go/ssa"
)

func init() {
	Registry["C02"] = checkC02
	Controls["C02"] = map[string][2]string{
		"R02.1": {"badDeleteNoUID", "goodDelete"},
		"R02.2": {"badCreateUnowned", "goodCreateOwned"},
	}
}

// roles: which parameter of the functions under ManageChildren carries the
// observed / desired object maps, derived from the sync entries downwards.
type childRoles struct {
	under    map[*ssa.Function]bool // functions reachable from ManageChildren
	obs, des map[*ssa.Function]int
	entries  []engine.CallSite // ManageChildren call sites
}

func computeChildRoles(p *Program) *childRoles {
	cr := &childRoles{obs: map[*ssa.Function]int{}, des: map[*ssa.Function]int{}}
	mc := p.Func("controller/common.ManageChildren")
	if mc == nil {
		return cr
	}
	cr.under = p.CG().ReachSet(mc)
	for _, f := range p.Scanned {
		for _, cs := range callsTo(f, false, "controller/common.ManageChildren") {
			cr.entries = append(cr.entries, cs)
			for i, a := range cs.Common().Args {
				if engine.DependsOnCall(a, engine.HasSuffix(".claimChildren", ".getChildren"), nil) != nil && strings.Contains(a.Type().String(), "UniformObjectMap") {
					cr.obs[mc] = i
				}
				if engine.DependsOnCall(a, engine.HasSuffix("MakeUniformObjectMap"), nil) != nil {
					cr.des[mc] = i
				}
			}
		}
	}
	// one level down: calls in ManageChildren passing elements of those maps
	for _, b := range engine.BlocksInl(mc) {
		for _, in := range b.Instrs {
			ci, ok := in.(ssa.CallInstruction)
			if !ok {
				continue
			}
			g := engine.StaticFn(ci.Common())
			if g == nil || !strings.HasPrefix(FK(g), engine.ModPrefix) {
				continue
			}
			for j, a := range ci.Common().Args {
				if oi, ok := cr.obs[mc]; ok && elemOf(a, mc.Params[oi]) {
					cr.obs[g] = j
				}
				if di, ok := cr.des[mc]; ok && elemOf(a, mc.Params[di]) {
					cr.des[g] = j
				}
			}
		}
	}
	return cr
}

// roleOf classifies an object value of f as "observed" or "desired" child
// (or "" / "mixed"), following parameters back to all static call sites.
func (cr *childRoles) roleOf(p *Program, f *ssa.Function, v ssa.Value, depth int) string {
	v = engine.ResolveLocal(v)
	if oi, ok := cr.obs[f]; ok && elemOf(v, f.Params[oi]) {
		return "observed"
	}
	if di, ok := cr.des[f]; ok && elemOf(v, f.Params[di]) {
		return "desired"
	}
	par, isP := v.(*ssa.Parameter)
	if !isP || depth > 3 {
		return ""
	}
	idx := -1
	for i, x := range f.Params {
		if x == par {
			idx = i
		}
	}
	role := ""
	n := 0
	for _, g := range p.Scanned {
		for _, b := range engine.BlocksInl(g) {
			for _, in := range b.Instrs {
				ci, ok := in.(ssa.CallInstruction)
				if !ok || engine.StaticFn(ci.Common()) != f || idx >= len(ci.Common().Args) {
					continue
				}
				n++
				r := cr.roleOf(p, g, ci.Common().Args[idx], depth+1)
				switch {
				case n == 1:
					role = r
				case r != role:
					role = "mixed"
				}
			}
		}
	}
	return role
}

// elemOf: v is m[k] or the range value of m.
func elemOf(v ssa.Value, m ssa.Value) bool {
	v = engine.ResolveLocal(v)
	switch x := v.(type) {
	case *ssa.Lookup:
		return x.X == m
	case *ssa.Extract:
		if nx, ok := x.Tuple.(*ssa.Next); ok && x.Index == 2 {
			if rg, ok := nx.Iter.(*ssa.Range); ok {
				return rg.X == m
			}
		}
	}
	return false
}

// elemKey returns (map, key) when v is m[k] or the value of `for k, v := range m`.
func elemKey(v ssa.Value) (m ssa.Value, k ssa.Value) {
	v = engine.ResolveLocal(v)
	switch x := v.(type) {
	case *ssa.Lookup:
		return x.X, engine.ResolveLocal(x.Index)
	case *ssa.Extract:
		if nx, ok := x.Tuple.(*ssa.Next); ok && x.Index == 2 {
			if rg, ok := nx.Iter.(*ssa.Range); ok {
				if refs := nx.Referrers(); refs != nil {
					for _, u := range *refs {
						if e, ok := u.(*ssa.Extract); ok && e.Index == 1 {
							return rg.X, e
						}
					}
				}
				return rg.X, nil
			}
		}
	case *ssa.UnOp: // slice range element: *(&X[i])
		if ia, ok := x.X.(*ssa.IndexAddr); ok {
			return ia.X, ia.Index
		}
	}
	return nil, nil
}

// objOfGetter: for call(…GetUID)(o) / o.ObjectMeta.UID returns o.
func objOfGetter(v ssa.Value, getter, field string) ssa.Value {
	v = engine.ResolveLocal(v)
	if c, ok := v.(*ssa.Call); ok && strings.HasSuffix(engine.CallKey(c.Common()), "."+getter) {
		recv := engine.CallSite{Instr: c}.Recv()
		if fa, ok := recv.(*ssa.FieldAddr); ok && strings.HasSuffix(E(fa), ".ObjectMeta") {
			return fa.X
		}
		return recv
	}
	// field read
	if addr := engine.LoadedFrom(v); addr != nil {
		if fa, ok := addr.(*ssa.FieldAddr); ok && strings.HasSuffix(E(fa), "."+field) {
			// strip embedded ObjectMeta
			base := fa.X
			if fa2, ok := base.(*ssa.FieldAddr); ok && strings.HasSuffix(E(fa2), ".ObjectMeta") {
				base = fa2.X
			}
			return base
		}
	}
	return nil
}

func checkC02(r *Report, p *Program) {
	r.Explanation = "Decides over ALL API write call sites found in /repo (dynamic ResourceInterface, ControllerRevision client, ResourceClient helpers, controller-runtime writer): (R02.1) every Delete carries Preconditions.UID taken from the observed object of the same map key and no DeleteCollection exists; (R02.2) every object handed to Create / to a create-capable server-side-apply Patch has had SetOwnerReferences(… MakeControllerRef(parent) …) applied on every path, MakeControllerRef sets Controller=true and UID=parent UID, every ControllerRevision literal is born owned; (R02.3) every Update/UpdateStatus is either inside a get-compare-UID-write helper or sends an object derived from an observed one (so it carries its resourceVersion); (R02.4) ClaimObject returns true only for ours∧match or after a successful adopt, the decorator's observed set is filtered by owner UID and marker, and ManageChildren receives exactly the claimed set; (R02.5) name, namespace and UID of a child write come from objects tied to the same map key."
	r.NotDecided = "interleavings with outside writers, stale caches, that the API server enforces preconditions/resourceVersion."
	r.Assumptions = []string{"UID precondition and resourceVersion are honoured by the API server", "value flow is intra-procedural plus the ManageChildren→delete/updateChildren parameter roles"}
	roles := computeChildRoles(p)
	r02_1(r, p, roles)
	r02_2(r, p)
	r02_3(r, p, roles)
	r02_4(r, p, roles)
	ownerRefEdits(r, p, "R02.6")
	rmwClosuresReadLive(r, p, "R02.7")
	noNewCrossSyncState(r, p, "R02.8")
	// revisions of another parent type are never claimed: written type labels = required type labels (shared with C09)
	revisionLabelsAgree(r, p, "R02.9")
	namespaceScopingTable(r, p, "R02.10")
	matchIsSelectorOnly(r, p, "R02.11")
	// an adoption that reports success has written the controller reference (shared with C03/C04)
	adoptAlwaysWrites(r, p, "R02.12")
	rmwAddressedByObjectNamespace(r, p, "R02.13")
	// an in-place update is conditional on the observed resourceVersion: system metadata reverted to the observed values (shared with C05)
	r05_4(r, p)
}

func uidSourceOfDelete(s engine.Sink) (obj ssa.Value, why string) {
	var res ssa.Value
	ok, why := deleteOptField(s, "Preconditions", func(v ssa.Value) (bool, string) {
		pa, isA := engine.Unwrap(v).(*ssa.Alloc)
		if !isA {
			return false, "Preconditions is not a local &Preconditions{…}: " + E(v)
		}
		u := engine.FieldStore(pa, "UID")
		if u == nil {
			return false, "Preconditions.UID is not set"
		}
		ua, isA := engine.Unwrap(u).(*ssa.Alloc)
		if !isA {
			return false, "Preconditions.UID is not the address of a local: " + E(u)
		}
		sts := engine.Stores(ua)
		if len(sts) != 1 {
			return false, sf("UID variable has %d definitions", len(sts))
		}
		o := objOfGetter(sts[0].Val, "GetUID", "UID")
		if o == nil {
			return false, "UID is not read from an object (GetUID()/.UID): " + E(sts[0].Val)
		}
		res = o
		return true, ""
	})
	if !ok {
		return nil, why
	}
	return res, ""
}

func r02_1(r *Report, p *Program, roles *childRoles) {
	const rule = "R02.1"
	r.Rule(rule, "every Delete sink passes Preconditions{UID:&u}, u read from the observed object (same map key as name/namespace); DeleteCollection is forbidden")
	r.Floor(rule, 3)
	for _, es := range effectiveSinks(p, engine.Sinks(p.Scanned)) {
		s := es.Sink
		in := s.Instr.(ssa.Instruction)
		if s.Verb == "DeleteCollection" || s.Verb == "DeleteAllOf" {
			r.Check(rule, es.Construct(), p.InstrPos(in), false, "", "collection delete cannot be UID-preconditioned")
			continue
		}
		if s.Verb != "Delete" || s.Iface == "crclient" {
			continue
		}
		obj, why := uidSourceOfDelete(s)
		if obj == nil {
			r.Check(rule, es.Construct(), p.InstrPos(in), false, "", why)
			continue
		}
		ok := true
		f := s.Fn
		checked := "UID precondition from " + E(obj)
		_, under := roles.under[f]
		if under {
			// must be an observed child (possibly handed down through helper parameters)
			role := roles.roleOf(p, f, obj, 0)
			if role != "observed" {
				ok, why = false, "UID precondition is read from "+E(obj)+", which is not (on every call path) an element of the observed map but "+map[string]string{"": "an unrelated object", "desired": "the desired child", "mixed": "the observed child at some call sites and another object at others"}[role]
			} else if _, kU := elemKey(obj); kU != nil {
				// R02.5: name and namespace tied to the same key
				nameObj := objOfGetter(s.Arg(1), "GetName", "Name")
				var nsObj ssa.Value
				if c := engine.DependsOnCall(s.Recv(), engine.HasSuffix("ResourceClient.Namespace"), nil); c != nil && len(c.Common().Args) == 2 {
					nsObj = objOfGetter(c.Common().Args[1], "GetNamespace", "Namespace")
				}
				for what, o := range map[string]ssa.Value{"name": nameObj, "namespace": nsObj} {
					if o == nil {
						ok, why = false, "delete "+what+" is not read from an object getter"
						continue
					}
					if engine.SameValue(o, obj) {
						continue
					}
					_, k := elemKey(o)
					if k == nil || !engine.SameValue(k, kU) {
						ok, why = false, "delete "+what+" comes from "+E(o)+" which is not tied to the key of the object whose UID is used ("+E(obj)+")"
					}
				}
				checked += "; name/namespace tied to the same key"
			} else {
				// helper taking the object as parameter: name/namespace must come from that same object
				nameObj := objOfGetter(s.Arg(1), "GetName", "Name")
				if nameObj == nil || !engine.SameValue(nameObj, obj) {
					ok, why = false, "delete name is not read from the object whose UID is used"
				}
			}
		} else if s.Iface == "rev" {
			nameObj := objOfGetter(s.Arg(1), "GetName", "Name")
			if nameObj == nil || !engine.SameValue(nameObj, obj) {
				ok, why = false, "revision delete name and UID come from different objects"
			}
		}
		r.Check(rule, es.Construct(), p.InstrPos(in), ok, checked, why)
	}
}

func isMakeControllerRef(k string) bool {
	return strings.HasSuffix(k, "controller/common.MakeControllerRef")
}

// ownedBefore: some SetOwnerReferences(obj, refs) with refs depending on
// MakeControllerRef(parent) dominates `before`.
func ownedBefore(f *ssa.Function, obj ssa.Value, before ssa.Instruction) (bool, string) {
	var setters []ssa.Instruction
	for _, cs := range callsTo(f, false, "Unstructured.SetOwnerReferences") {
		if !engine.SameValue(cs.Recv(), obj) {
			continue
		}
		// on every path into the setter the list contains the parent's controller
		// reference: a conditional append (phi with a branch that lacks it) does not count
		if !engine.MustDependOnCall(cs.Arg(0), isMakeControllerRef, nil) {
			continue
		}
		setters = append(setters, cs.Instr.(ssa.Instruction))
	}
	if len(setters) == 0 {
		return false, "no SetOwnerReferences(… MakeControllerRef(parent) …) on the object that is sent whose list contains the parent's controller reference on every path (a conditional append does not count)"
	}
	w := bypass(f, before, func(in ssa.Instruction) bool {
		for _, s := range setters {
			if s == in {
				return true
			}
		}
		return false
	})
	if w != nil {
		return false, "a path reaches the write without adding the controller reference; " + pathWhy(w)
	}
	return true, ""
}

func r02_2(r *Report, p *Program) {
	const rule = "R02.2"
	r.Rule(rule, "every object sent by Create, and every object marshalled into an ApplyPatchType Patch, has the parent's controller owner reference added on every path; MakeControllerRef sets Controller=true, UID=parent.GetUID(); ControllerRevision literals are born owned")
	r.Floor(rule, 4)
	for _, s := range engine.Sinks(p.Scanned) {
		in := s.Instr.(ssa.Instruction)
		switch {
		case s.Iface == "dyn" && s.Verb == "Create":
			obj := engine.ResolveLocal(s.Arg(1))
			ok, why := ownedBefore(s.Fn, obj, in)
			r.Check(rule, s.Construct(), p.InstrPos(in), ok, "created object carries MakeControllerRef(parent)", why)
		case s.Iface == "dyn" && (s.Verb == "Patch" || s.Verb == "Apply"):
			if s.Verb == "Patch" {
				pt, isC := constStr(s.Arg(2))
				if !isC || pt != "application/apply-patch+yaml" {
					continue // not create-capable
				}
			}
			var obj ssa.Value
			var marshal ssa.Instruction
			if s.Verb == "Patch" {
				if c := engine.DependsOnCall(s.Arg(3), engine.HasSuffix("json.Marshal"), nil); c != nil {
					obj = engine.ResolveLocal(c.Common().Args[0])
					marshal = c
				}
			} else {
				obj = engine.ResolveLocal(s.Arg(2))
				marshal = in
			}
			if obj == nil {
				r.Check(rule, s.Construct(), p.InstrPos(in), false, "", "cannot identify the object that is marshalled into the apply patch")
				continue
			}
			ok, why := ownedBefore(s.Fn, obj, marshal)
			r.Check(rule, s.Construct(), p.InstrPos(in), ok, "applied configuration carries MakeControllerRef(parent)", why)
		}
	}
	// MakeControllerRef itself
	if mk := fn(r, p, rule, "controller/common.MakeControllerRef"); mk != nil {
		ok, why := false, "no OwnerReference literal"
		for _, b := range engine.BlocksInl(mk) {
			for _, in := range b.Instrs {
				a, isA := in.(*ssa.Alloc)
				if !isA || !strings.HasSuffix(a.Type().String(), "meta/v1.OwnerReference") {
					continue
				}
				uid, ctl := engine.FieldStore(a, "UID"), engine.FieldStore(a, "Controller")
				ok, why = true, ""
				if uid == nil || E(uid) != "call(unstructured.Unstructured.GetUID)(p0)" {
					ok, why = false, "UID is not parent.GetUID()"
				}
				if ctl == nil {
					ok, why = false, "Controller is not set"
				} else if c := callOf(ctl); c == nil || len(c.Common().Args) != 1 || E(c.Common().Args[0]) != "true" {
					ok, why = false, "Controller is not a pointer to true: "+E(ctl)
				}
				for _, fld := range []string{"APIVersion", "Kind", "Name"} {
					if v := engine.FieldStore(a, fld); v == nil || !strings.Contains(E(v), "(p0)") {
						ok, why = false, fld+" is not read from the parent"
					}
				}
			}
		}
		r.Check(rule, FK(mk), p.Pos(mk.Pos()), ok, "MakeControllerRef{UID:parent.GetUID(), Controller:&true, …}", why)
	}
	// ControllerRevision literals
	nlit := 0
	for _, f := range p.Scanned {
		for _, b := range engine.BlocksInl(f) {
			for _, in := range b.Instrs {
				a, isA := in.(*ssa.Alloc)
				if !isA || !strings.HasSuffix(a.Type().String(), "v1alpha1.ControllerRevision") || !a.Heap {
					continue
				}
				hasField := false
				if refs := a.Referrers(); refs != nil {
					for _, u := range *refs {
						if _, isFA := u.(*ssa.FieldAddr); isFA {
							hasField = true
						}
					}
				}
				if !hasField {
					continue // not a composite literal with content
				}
				nlit++
				// a store to .ObjectMeta.OwnerReferences depending on MakeControllerRef must precede every return
				var stores []ssa.Instruction
				for _, b2 := range engine.BlocksInl(f) {
					for _, in2 := range b2.Instrs {
						st, isS := in2.(*ssa.Store)
						if !isS {
							continue
						}
						if strings.HasSuffix(E(st.Addr), ".ObjectMeta.OwnerReferences") && engine.DependsOnValue(st.Addr, a, nil) &&
							engine.MustDependOnCall(st.Val, isMakeControllerRef, nil) {
							stores = append(stores, st)
						}
					}
				}
				ok, why := len(stores) > 0, "ControllerRevision literal never gets MakeControllerRef(parent) appended to its OwnerReferences"
				if ok {
					w := engine.Query{Fn: f, From: []engine.Point{engine.After(a)},
						Target:   func(x ssa.Instruction) bool { rt, isR := x.(*ssa.Return); return isR && engine.ReturnsNilError(rt) },
						CutInstr: func(x ssa.Instruction) bool { return x == stores[0] }}.Find()
					if w != nil {
						ok, why = false, "a success path returns the revision without the controller reference; "+pathWhy(w)
					}
				}
				r.Check(rule, sf("%s→ControllerRevision{}#%d", FK(f), nlit-1), p.InstrPos(in), ok, "revision literal born owned", why)
			}
		}
	}
}

func r02_3(r *Report, p *Program, roles *childRoles) {
	const rule = "R02.3"
	r.Rule(rule, "every Update/UpdateStatus is inside a Get→UID-compare→write helper (error on mismatch), or sends an object derived from an observed/cached one (ApplyUpdate(observed,…), DeepCopy, or a revision whose resourceVersion is synchronised with the observed one)")
	r.Floor(rule, 8)
	for _, s := range engine.Sinks(p.Scanned) {
		if s.Verb != "Update" && s.Verb != "UpdateStatus" || s.Iface == "crclient" {
			continue
		}
		in := s.Instr.(ssa.Instruction)
		f := s.Fn
		obj := s.Arg(1)
		// (a) RMW helper: obj is the result of Get on the same client in this function, and the write is guarded by UID equality
		if g := engine.DependsOnCall(obj, engine.HasSuffix("ResourceInterface.Get", "ControllerRevisionInterface.Get", "controllerRevisions.Get"), nil); g != nil {
			w := unguarded(f, nil, in, func(l Lit) bool {
				if l.Op.String() != "==" || !l.Pos {
					return false
				}
				ox, oy := objOfGetter(l.X, "GetUID", "UID"), objOfGetter(l.Y, "GetUID", "UID")
				if ox == nil || oy == nil {
					return false
				}
				cur := ssa.Value(g)
				if ex := engine.ResultValue(g, 0); ex != nil {
					cur = ex
				}
				return (engine.SameValue(ox, cur) && !engine.SameValue(oy, cur)) || (engine.SameValue(oy, cur) && !engine.SameValue(ox, cur))
			})
			// mismatch must return an error
			ok, why := w == nil, "write reachable without passing 'current.GetUID() == orig.GetUID()'; "+pathWhy(w)
			r.Check(rule, s.Construct()+"[rmw]", p.InstrPos(in), ok, "Get → UID equality → write", why)
			continue
		}
		// (b) derived objects
		switch {
		case engine.DependsOnCall(obj, engine.HasSuffix("controller/common.ApplyUpdate"), nil) != nil:
			au := engine.DependsOnCall(obj, engine.HasSuffix("controller/common.ApplyUpdate"), nil)
			ok, why := true, ""
			if roles.under[f] {
				if roles.roleOf(p, f, au.Common().Args[0], 0) != "observed" {
					ok, why = false, "ApplyUpdate's base is "+E(au.Common().Args[0])+", not an element of the observed map"
				}
			}
			r.Check(rule, s.Construct()+"[merged]", p.InstrPos(in), ok, "object = ApplyUpdate(observed, desired): carries observed identity and resourceVersion", why)
		case s.Iface == "rev":
			// resourceVersion synchronised with the observed revision on every path
			w := engine.Query{Fn: f, Target: func(x ssa.Instruction) bool { return x == in },
				CutInstr: func(x ssa.Instruction) bool { return isCallTo(x, ".SetResourceVersion") },
				CutEdge: func(b *ssa.BasicBlock, i int, l *Lit) bool {
					return l != nil && l.Pos && l.Op.String() == "==" && strings.Contains(l.Atom, "GetResourceVersion") && strings.Count(l.Atom, "GetResourceVersion") == 2
				}}.Find()
			r.Check(rule, s.Construct()+"[rv-sync]", p.InstrPos(in), w == nil, "revision's resourceVersion equals / is set to the observed one", "revision Update reachable without synchronising resourceVersion with the observed revision; "+pathWhy(w))
		case engine.DependsOnCall(obj, engine.HasSuffix("Unstructured.DeepCopy"), nil) != nil:
			dc := engine.DependsOnCall(obj, engine.HasSuffix("Unstructured.DeepCopy"), nil)
			src := dc.Common().Args[0]
			ok := engine.BackSlice(src, func(x ssa.Value) bool { _, isP := x.(*ssa.Parameter); return isP }, func(k string) bool {
				return strings.HasSuffix(k, "finalizer.Manager.SyncObject") || strings.HasSuffix(k, "Unstructured.DeepCopy")
			})
			why := ""
			if !ok {
				why = "DeepCopy source " + E(src) + " is not the observed (parameter) object"
			}
			r.Check(rule, s.Construct()+"[copy-of-observed]", p.InstrPos(in), ok, "object = DeepCopy(observed parent)", why)
		default:
			r.Check(rule, s.Construct(), p.InstrPos(in), false, "", "Update sends "+E(obj)+": neither a read-modify-write with UID check nor derived from an observed object")
		}
	}
}

func r02_4(r *Report, p *Program, roles *childRoles) {
	const rule = "R02.4"
	r.Rule(rule, "(a) ClaimObject returns true only on ours∧match or adopt()==nil; (b) decorator getChildren inserts only objects whose controllerRef.UID == parent UID and whose marker annotation equals the decorator name; (c) ManageChildren's observed argument is the value returned by claimChildren/getChildren; claimChildren inserts only ClaimChildren's result")
	r.Floor(rule, 5)
	// (a)
	if co := fn(r, p, rule, "third_party/kubernetes.BaseControllerRefManager.ClaimObject"); co != nil {
		claimTable(r, p, rule, co, true)
	}
	// (b)
	if gc := fn(r, p, rule, "controller/decorator.decoratorController.getChildren"); gc != nil {
		n := 0
		for _, cs := range callsTo(gc, false, "UniformObjectMap.Insert", "UniformObjectMap.InsertAll") {
			n++
			in := cs.Instr.(ssa.Instruction)
			w1 := unguarded(gc, nil, in, func(l Lit) bool {
				// (controllerRef.UID == parentUID) positive
				return l.Pos && l.Op.String() == "==" && strings.Contains(l.Atom, "metav1.GetControllerOf") && strings.Contains(l.Atom, ".UID") && strings.Contains(l.Atom, "GetUID)(p1)")
			})
			w0 := unguarded(gc, nil, in, func(l Lit) bool {
				v, isNil, ok := l.NilTest()
				return ok && !isNil && strings.Contains(E(v), "metav1.GetControllerOf")
			})
			w2 := unguarded(gc, nil, in, func(l Lit) bool {
				return l.Pos && l.Op.String() == "==" && strings.Contains(l.Atom, `"metacontroller.k8s.io/decorator-controller"`) && strings.Contains(l.Atom, "p0.dc.ObjectMeta.Name")
			})
			ok := w0 == nil && w1 == nil && w2 == nil && strings.HasSuffix(cs.Key, ".Insert")
			why := ""
			switch {
			case !strings.HasSuffix(cs.Key, ".Insert"):
				why = "InsertAll bypasses the per-object filter"
			case w0 != nil:
				why = "Insert reachable for an object without controller reference; " + pathWhy(w0)
			case w1 != nil:
				why = "Insert reachable without controllerRef.UID == parent UID; " + pathWhy(w1)
			case w2 != nil:
				why = "Insert reachable without the decorator marker annotation matching; " + pathWhy(w2)
			}
			r.Check(rule, sf("%s→Insert#%d", FK(gc), n-1), p.InstrPos(in), ok, "attachment filter: owner UID ∧ marker", why)
		}
		if n == 0 {
			r.Fail(rule, FK(gc)+"→Insert", p.Pos(gc.Pos()), "anchor-lost", "getChildren inserts nothing")
		}
	}
	// (c)
	for i, cs := range roles.entries {
		mc := p.Func("controller/common.ManageChildren")
		oi, has := roles.obs[mc]
		c := sf("%s→ManageChildren#%d[observed]", FK(cs.Fn), i)
		if !has {
			r.Check(rule, c, p.InstrPos(cs.Instr), false, "", "no argument of ManageChildren derives from claimChildren/getChildren")
			continue
		}
		a := engine.ResolveLocal(cs.Common().Args[oi])
		k := keyOf(a)
		ok := strings.HasSuffix(k, ".claimChildren") || strings.HasSuffix(k, ".getChildren")
		why := ""
		if !ok {
			why = "observed argument is " + E(a) + ", not exactly the claimed/listed set"
		}
		r.Check(rule, c, p.InstrPos(cs.Instr), ok, "observed = "+Abbrev(k)+"(parent)", why)
	}
	if cc := fn(r, p, rule, "controller/composite.parentController.claimChildren"); cc != nil {
		n := 0
		for _, cs := range callsTo(cc, false, "UniformObjectMap.Insert", "UniformObjectMap.InsertAll") {
			n++
			arg := cs.Arg(1)
			ok := engine.DependsOnCall(arg, engine.HasSuffix("UnstructuredManager.ClaimChildren"), nil) != nil &&
				engine.DependsOnCall(arg, engine.HasSuffix("Lister.List", "NamespaceLister.List"), nil) == nil
			why := ""
			if !ok {
				why = "claimChildren inserts " + E(arg) + ", which is not (only) the result of ClaimChildren"
			}
			r.Check(rule, sf("%s→Insert#%d", FK(cc), n-1), p.InstrPos(cs.Instr), ok, "observed map filled from ClaimChildren's result only", why)
		}
		if n == 0 {
			r.Fail(rule, FK(cc)+"→Insert", p.Pos(cc.Pos()), "anchor-lost", "claimChildren inserts nothing")
		}
	}
}

var Abbrev = engine.Abbrev
