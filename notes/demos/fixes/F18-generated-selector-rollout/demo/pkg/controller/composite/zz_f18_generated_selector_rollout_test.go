package composite

// F18: a rolling update under a CompositeController with
// `spec.generateSelector: true` has to complete when every child is healthy.
//
// The tests drive the REAL parentController.syncParentObject repeatedly, so the
// real claimChildren, syncRevisions -> syncRollingUpdate ->
// shouldContinueRolling, the real controller-uid label injection, the real
// common.ManageChildren and the real parent status update all run. The fakes:
//   - parent and children live in client-go's fake dynamic client;
//   - the children are observed through a real dynamic shared informer/lister
//     on top of that fake client (the test waits after every step until the
//     informer cache equals the "server" state, so the run is deterministic);
//   - ControllerRevisions live in a small in-memory store that backs both the
//     typed client and the lister the parentController uses;
//   - the sync hook is an in-process hooks.Hook returning 3 Widgets named
//     <parent>-<i> whose spec.image is the parent's spec.image. With
//     generateSelector=true the hook sets NO labels (metacontroller is
//     documented to add controller-uid itself); with generateSelector=false the
//     hook sets the labels the parent's spec.selector asks for;
//   - after every sync a fair environment makes every child healthy
//     (Ready=True, observedGeneration caught up).
//
// Scenario: create the parent with image v1, sync until converged; change the
// parent to image v2 (generation bumped); sync up to 20 times. Expected: all
// children at v2, parent condition Updated=True, one ControllerRevision left.
//
// TestF18ExplicitSelectorRolloutCompletes is the control (generateSelector
// false); TestF18GeneratedSelectorRolloutCompletes is the case under suspicion.

import (
	"context"
	"fmt"
	"reflect"
	"sort"
	"strings"
	"testing"
	"time"

	apierrors "k8s.io/apimachinery/pkg/api/errors"
	metav1 "k8s.io/apimachinery/pkg/apis/meta/v1"
	"k8s.io/apimachinery/pkg/apis/meta/v1/unstructured"
	"k8s.io/apimachinery/pkg/labels"
	"k8s.io/apimachinery/pkg/runtime"
	"k8s.io/apimachinery/pkg/runtime/schema"
	"k8s.io/apimachinery/pkg/types"
	"k8s.io/apimachinery/pkg/watch"
	"k8s.io/client-go/discovery"
	"k8s.io/client-go/dynamic/fake"
	"k8s.io/client-go/rest"
	"k8s.io/client-go/tools/cache"
	"sigs.k8s.io/controller-runtime/pkg/log/zap"

	"metacontroller/pkg/apis/metacontroller/v1alpha1"
	mcv1alpha1 "metacontroller/pkg/client/generated/clientset/internalclientset/typed/metacontroller/v1alpha1"
	mclisters "metacontroller/pkg/client/generated/lister/metacontroller/v1alpha1"
	"metacontroller/pkg/controller/common"
	"metacontroller/pkg/controller/common/api"
	compositev1 "metacontroller/pkg/controller/composite/api/v1"
	dynamicdiscovery "metacontroller/pkg/dynamic/discovery"
	dynamicinformer "metacontroller/pkg/dynamic/informer"
	dynamicobject "metacontroller/pkg/dynamic/object"
	testcommon "metacontroller/pkg/internal/testutils/common"
	testclientset "metacontroller/pkg/internal/testutils/dynamic/clientset"
	testdiscovery "metacontroller/pkg/internal/testutils/dynamic/discovery"
	testhooks "metacontroller/pkg/internal/testutils/hooks"
	"metacontroller/pkg/logging"
)

// ---------------------------------------------------------------------------
// In-memory ControllerRevision "API server" + lister.
// ---------------------------------------------------------------------------

type f18RevisionStore struct {
	indexer cache.Indexer
	nextUID int
	nextRV  int
}

func newF18RevisionStore() *f18RevisionStore {
	return &f18RevisionStore{
		indexer: cache.NewIndexer(cache.MetaNamespaceKeyFunc, cache.Indexers{cache.NamespaceIndex: cache.MetaNamespaceIndexFunc}),
	}
}

func (s *f18RevisionStore) lister() mclisters.ControllerRevisionLister {
	return mclisters.NewControllerRevisionLister(s.indexer)
}

// describe lists every ControllerRevision with the children it claims.
func (s *f18RevisionStore) describe() []string {
	var out []string
	for _, o := range s.indexer.List() {
		rev := o.(*v1alpha1.ControllerRevision)
		var names []string
		for _, ck := range rev.Children {
			names = append(names, ck.Names...)
		}
		suffix := rev.Name
		if len(suffix) > 8 {
			suffix = suffix[len(suffix)-8:]
		}
		out = append(out, fmt.Sprintf("...%s patch=%s children=%v", suffix, string(rev.ParentPatch.Raw), names))
	}
	sort.Strings(out)
	return out
}

type f18MCClient struct{ store *f18RevisionStore }

func (c *f18MCClient) Discovery() discovery.DiscoveryInterface { return nil }
func (c *f18MCClient) MetacontrollerV1alpha1() mcv1alpha1.MetacontrollerV1alpha1Interface {
	return &f18MCV1alpha1{store: c.store}
}

type f18MCV1alpha1 struct{ store *f18RevisionStore }

func (c *f18MCV1alpha1) RESTClient() rest.Interface { return nil }
func (c *f18MCV1alpha1) ControllerRevisions(namespace string) mcv1alpha1.ControllerRevisionInterface {
	return &f18RevisionClient{store: c.store, ns: namespace}
}

type f18RevisionClient struct {
	store *f18RevisionStore
	ns    string
}

func (c *f18RevisionClient) key(name string) string {
	if c.ns == "" {
		return name
	}
	return c.ns + "/" + name
}

func (c *f18RevisionClient) Create(_ context.Context, cr *v1alpha1.ControllerRevision, _ metav1.CreateOptions) (*v1alpha1.ControllerRevision, error) {
	if _, exists, _ := c.store.indexer.GetByKey(c.key(cr.Name)); exists {
		return nil, apierrors.NewAlreadyExists(v1alpha1.Resource("controllerrevisions"), cr.Name)
	}
	obj := cr.DeepCopy()
	c.store.nextUID++
	c.store.nextRV++
	obj.UID = types.UID(fmt.Sprintf("rev-uid-%d", c.store.nextUID))
	obj.ResourceVersion = fmt.Sprintf("%d", c.store.nextRV)
	return obj.DeepCopy(), c.store.indexer.Add(obj)
}

func (c *f18RevisionClient) Update(_ context.Context, cr *v1alpha1.ControllerRevision, _ metav1.UpdateOptions) (*v1alpha1.ControllerRevision, error) {
	old, exists, _ := c.store.indexer.GetByKey(c.key(cr.Name))
	if !exists {
		return nil, apierrors.NewNotFound(v1alpha1.Resource("controllerrevisions"), cr.Name)
	}
	oldRev := old.(*v1alpha1.ControllerRevision)
	if cr.ResourceVersion != "" && cr.ResourceVersion != oldRev.ResourceVersion {
		return nil, apierrors.NewConflict(v1alpha1.Resource("controllerrevisions"), cr.Name, fmt.Errorf("stale resourceVersion"))
	}
	obj := cr.DeepCopy()
	obj.UID = oldRev.UID
	c.store.nextRV++
	obj.ResourceVersion = fmt.Sprintf("%d", c.store.nextRV)
	return obj.DeepCopy(), c.store.indexer.Update(obj)
}

func (c *f18RevisionClient) Delete(_ context.Context, name string, opts metav1.DeleteOptions) error {
	old, exists, _ := c.store.indexer.GetByKey(c.key(name))
	if !exists {
		return apierrors.NewNotFound(v1alpha1.Resource("controllerrevisions"), name)
	}
	if opts.Preconditions != nil && opts.Preconditions.UID != nil && *opts.Preconditions.UID != old.(*v1alpha1.ControllerRevision).UID {
		return apierrors.NewConflict(v1alpha1.Resource("controllerrevisions"), name, fmt.Errorf("uid precondition failed"))
	}
	return c.store.indexer.Delete(old)
}

func (c *f18RevisionClient) DeleteCollection(context.Context, metav1.DeleteOptions, metav1.ListOptions) error {
	return fmt.Errorf("not implemented")
}

func (c *f18RevisionClient) Get(_ context.Context, name string, _ metav1.GetOptions) (*v1alpha1.ControllerRevision, error) {
	old, exists, _ := c.store.indexer.GetByKey(c.key(name))
	if !exists {
		return nil, apierrors.NewNotFound(v1alpha1.Resource("controllerrevisions"), name)
	}
	return old.(*v1alpha1.ControllerRevision).DeepCopy(), nil
}

func (c *f18RevisionClient) List(context.Context, metav1.ListOptions) (*v1alpha1.ControllerRevisionList, error) {
	return nil, fmt.Errorf("not implemented")
}

func (c *f18RevisionClient) Watch(context.Context, metav1.ListOptions) (watch.Interface, error) {
	return nil, fmt.Errorf("not implemented")
}

func (c *f18RevisionClient) Patch(context.Context, string, types.PatchType, []byte, metav1.PatchOptions, ...string) (*v1alpha1.ControllerRevision, error) {
	return nil, fmt.Errorf("not implemented")
}

func (c *f18RevisionClient) UpdateWithRetries(orig *v1alpha1.ControllerRevision, updateFn func(*v1alpha1.ControllerRevision) bool) (*v1alpha1.ControllerRevision, error) {
	cur, err := c.Get(context.TODO(), orig.Name, metav1.GetOptions{})
	if err != nil {
		return nil, err
	}
	if !updateFn(cur) {
		return cur, nil
	}
	return c.Update(context.TODO(), cur, metav1.UpdateOptions{})
}

// ---------------------------------------------------------------------------
// The sync hook.
// ---------------------------------------------------------------------------

const (
	f18ChildAPIVersion = "example.com/v1"
	f18ChildKind       = "Widget"
	f18ChildGroup      = "example.com"
	f18ChildResource   = "widgets"
	f18Replicas        = 3
	f18ParentName      = "web"
	f18ParentUID       = "f18-parent-uid"
)

var (
	f18ChildGVR  = schema.GroupVersionResource{Group: f18ChildGroup, Version: "v1", Resource: f18ChildResource}
	f18ParentGVR = schema.GroupVersionResource{Group: testcommon.TestGroup, Version: testcommon.TestVersion, Resource: testcommon.TestResource}
)

// f18Hook answers like a webhook would: f18Replicas Widgets named <parent>-<i>
// that carry the parent's spec.image. childLabels are the labels the hook
// author puts on the children: nil when the author relies on
// generateSelector, the parent's selector labels otherwise. The hook never sets
// a controller-uid label.
type f18Hook struct {
	childLabels map[string]string
	// invalidLabels makes the hook answer with metadata.labels that are not a
	// string map (a typical hook bug: an unquoted number as label value).
	invalidLabels bool
}

func (h *f18Hook) IsEnabled() bool { return true }

func (h *f18Hook) Call(request api.WebhookRequest, response interface{}) error {
	req := request.(*compositev1.CompositeHookRequest)
	resp := response.(*compositev1.CompositeHookResponse)
	parent := req.Parent
	image, _, _ := unstructured.NestedString(parent.Object, "spec", "image")
	for i := 0; i < f18Replicas; i++ {
		child := testcommon.NewUnstructured(f18ChildAPIVersion, f18ChildKind, parent.GetNamespace(), fmt.Sprintf("%s-%d", parent.GetName(), i))
		if h.childLabels != nil {
			l := make(map[string]string, len(h.childLabels))
			for k, v := range h.childLabels {
				l[k] = v
			}
			child.SetLabels(l)
		}
		if h.invalidLabels {
			_ = unstructured.SetNestedField(child.Object, map[string]interface{}{"tier": int64(1)}, "metadata", "labels")
		}
		_ = unstructured.SetNestedField(child.Object, image, "spec", "image")
		resp.Children = append(resp.Children, child)
	}
	resp.Status = map[string]interface{}{"replicas": int64(f18Replicas)}
	return nil
}

// ---------------------------------------------------------------------------
// The world.
// ---------------------------------------------------------------------------

type f18World struct {
	t             *testing.T
	pc            *parentController
	store         *f18RevisionStore
	dyn           *fake.FakeDynamicClient
	childInformer *dynamicinformer.ResourceInformer
	waits         []string
}

func newF18World(t *testing.T, generateSelector bool, method v1alpha1.ChildUpdateMethod) *f18World {
	logging.InitLogging(&zap.Options{})

	ready := "True"
	strategy := &v1alpha1.CompositeControllerChildUpdateStrategy{
		Method: method,
		StatusChecks: v1alpha1.ChildUpdateStatusChecks{
			Conditions: []v1alpha1.StatusConditionCheck{{Type: "Ready", Status: &ready}},
		},
	}
	cc := &v1alpha1.CompositeController{
		ObjectMeta: metav1.ObjectMeta{Name: "f18-cc"},
		Spec: v1alpha1.CompositeControllerSpec{
			GenerateSelector: &generateSelector,
			ParentResource: v1alpha1.CompositeControllerParentResourceRule{
				ResourceRule: v1alpha1.ResourceRule{APIVersion: testcommon.TestAPIVersion, Resource: testcommon.TestResource},
			},
			ChildResources: []v1alpha1.CompositeControllerChildResourceRule{{
				ResourceRule:   v1alpha1.ResourceRule{APIVersion: f18ChildAPIVersion, Resource: f18ChildResource},
				UpdateStrategy: strategy,
			}},
			Hooks: &v1alpha1.CompositeControllerHooks{Sync: &v1alpha1.Hook{}},
		},
	}

	// The parent. In explicit-selector mode it carries spec.selector (and the
	// spec.template labels ControllerRevisions are labelled with).
	parent := testcommon.NewUnstructured(testcommon.TestAPIVersion, testcommon.TestKind, testcommon.TestNamespace, f18ParentName)
	parent.SetUID(f18ParentUID)
	parent.SetGeneration(1)
	_ = unstructured.SetNestedField(parent.Object, "v1", "spec", "image")
	hook := &f18Hook{}
	if !generateSelector {
		sel := map[string]string{"app": "web"}
		_ = unstructured.SetNestedStringMap(parent.Object, sel, "spec", "selector", "matchLabels")
		_ = unstructured.SetNestedStringMap(parent.Object, sel, "spec", "template", "metadata", "labels")
		hook.childLabels = sel
	}

	// Discovery + dynamic client that know parent and child resources.
	apiResources := append(testcommon.NewDefaultAPIResourceList(), &metav1.APIResourceList{
		GroupVersion: f18ChildAPIVersion,
		APIResources: []metav1.APIResource{{
			Name: f18ChildResource, Namespaced: true, Group: f18ChildGroup, Version: "v1", Kind: f18ChildKind,
		}},
	})
	resourceMap := testdiscovery.NewFakeResourceMap(testclientset.NewFakeNewSimpleClientsetWithResources(apiResources))
	dyn := fake.NewSimpleDynamicClientWithCustomListKinds(runtime.NewScheme(), map[schema.GroupVersionResource]string{
		f18ChildGVR:  "WidgetList",
		f18ParentGVR: testcommon.TestResourceList,
	}, parent.DeepCopy())
	clientset := testclientset.NewClientset(testcommon.NewDefaultRestConfig(), resourceMap, dyn)

	parentClient, err := clientset.Resource(testcommon.TestAPIVersion, testcommon.TestResource)
	if err != nil {
		t.Fatal(err)
	}
	updateStrategy, err := makeUpdateStrategyMap(resourceMap, cc)
	if err != nil {
		t.Fatal(err)
	}

	// A real dynamic informer for the children on top of the fake client.
	informerFactory := dynamicinformer.NewSharedInformerFactory(clientset, 30*time.Minute)
	childInformer, err := informerFactory.Resource(f18ChildAPIVersion, f18ChildResource)
	if err != nil {
		t.Fatal(err)
	}
	t.Cleanup(childInformer.Close)
	if !cache.WaitForCacheSync(testcommon.NewCh(), childInformer.Informer().HasSynced) {
		t.Fatal("child informer did not sync")
	}
	childInformers := make(common.InformerMap)
	childInformers.Set(f18ChildGVR, childInformer)

	store := newF18RevisionStore()
	parentResource := testcommon.DefaultApiResource
	pc := &parentController{
		cc:             cc,
		parentResource: &dynamicdiscovery.APIResource{APIResource: parentResource.APIResource, APIVersion: parentResource.APIVersion},
		mcClient:       &f18MCClient{store: store},
		dynClient:      clientset,
		parentClient:   parentClient,
		revisionLister: store.lister(),
		queue:          testcommon.NewDefaultWorkQueue(),
		updateStrategy: updateStrategy,
		childInformers: childInformers,
		ssaOptions:     &common.ApplyOptions{Strategy: common.ApplyStrategyDynamicApply},
		eventRecorder:  testcommon.NewFakeRecorder(),
		finalizer:      testcommon.DefaultFinalizerManager,
		customize:      defaultCustomizeManager(),
		syncHook:       hook,
		finalizeHook:   testhooks.NewDisabledExecutorStub(),
		logger:         logging.Logger,
	}
	return &f18World{t: t, pc: pc, store: store, dyn: dyn, childInformer: childInformer}
}

func (w *f18World) liveParent() *unstructured.Unstructured {
	p, err := w.dyn.Resource(f18ParentGVR).Namespace(testcommon.TestNamespace).Get(context.TODO(), f18ParentName, metav1.GetOptions{})
	if err != nil {
		w.t.Fatalf("can't get parent: %v", err)
	}
	return p
}

func (w *f18World) liveChildren() map[string]*unstructured.Unstructured {
	list, err := w.dyn.Resource(f18ChildGVR).Namespace(testcommon.TestNamespace).List(context.TODO(), metav1.ListOptions{})
	if err != nil {
		w.t.Fatalf("can't list children: %v", err)
	}
	out := make(map[string]*unstructured.Unstructured, len(list.Items))
	for i := range list.Items {
		out[list.Items[i].GetName()] = list.Items[i].DeepCopy()
	}
	return out
}

// waitForInformer blocks until the child informer's cache holds exactly what
// the fake API server holds, so that what the next sync observes does not
// depend on goroutine scheduling.
func (w *f18World) waitForInformer() {
	deadline := time.Now().Add(10 * time.Second)
	for {
		live := w.liveChildren()
		cached, err := w.childInformer.Lister().Namespace(testcommon.TestNamespace).List(labels.Everything())
		if err != nil {
			w.t.Fatalf("can't list from informer: %v", err)
		}
		same := len(cached) == len(live)
		for _, c := range cached {
			l := live[c.GetName()]
			// apiVersion/kind may or may not be kept in list items; compare the rest.
			if l == nil || !reflect.DeepEqual(f18WithoutTypeMeta(l), f18WithoutTypeMeta(c)) {
				same = false
				break
			}
		}
		if same {
			return
		}
		if time.Now().After(deadline) {
			w.t.Fatalf("informer cache did not catch up with the fake API server: live=%v cached=%v", live, cached)
		}
		time.Sleep(2 * time.Millisecond)
	}
}

func f18WithoutTypeMeta(u *unstructured.Unstructured) map[string]interface{} {
	c := u.DeepCopy().Object
	delete(c, "apiVersion")
	delete(c, "kind")
	return c
}

// syncOnce runs the real syncParentObject on the live parent, then lets the
// fair environment heal every child and the informer catch up.
func (w *f18World) syncOnce() error {
	w.waitForInformer()
	err := w.pc.syncParentObject(w.liveParent())

	if cond := w.updatedCondition(); cond != nil && cond.Reason == "RolloutWaiting" {
		if len(w.waits) == 0 || w.waits[len(w.waits)-1] != cond.Message {
			w.waits = append(w.waits, cond.Message)
		}
	}

	// Fair environment: every child is (or becomes) healthy.
	for _, child := range w.liveChildren() {
		_ = unstructured.SetNestedField(child.Object, child.GetGeneration(), "status", "observedGeneration")
		if e := dynamicobject.SetStatusCondition(child.Object, &dynamicobject.StatusCondition{Type: "Ready", Status: "True"}); e != nil {
			w.t.Fatalf("environment can't set child condition: %v", e)
		}
		if _, e := w.dyn.Resource(f18ChildGVR).Namespace(child.GetNamespace()).Update(context.TODO(), child, metav1.UpdateOptions{}); e != nil {
			w.t.Fatalf("environment can't update child status: %v", e)
		}
	}
	w.waitForInformer()
	return err
}

func (w *f18World) setImage(image string) {
	p := w.liveParent()
	_ = unstructured.SetNestedField(p.Object, image, "spec", "image")
	p.SetGeneration(p.GetGeneration() + 1)
	if _, err := w.dyn.Resource(f18ParentGVR).Namespace(p.GetNamespace()).Update(context.TODO(), p, metav1.UpdateOptions{}); err != nil {
		w.t.Fatalf("can't update parent: %v", err)
	}
}

func (w *f18World) updatedCondition() *dynamicobject.StatusCondition {
	cond, _ := dynamicobject.GetStatusCondition(w.liveParent().Object, "Updated")
	return cond
}

func (w *f18World) images() map[string]string {
	out := map[string]string{}
	for name, c := range w.liveChildren() {
		img, _, _ := unstructured.NestedString(c.Object, "spec", "image")
		out[name] = img
	}
	return out
}

func (w *f18World) countAt(image string) int {
	n := 0
	for _, img := range w.images() {
		if img == image {
			n++
		}
	}
	return n
}

// settled reports whether the rollout to image is complete and cleaned up.
func (w *f18World) settled(image string) bool {
	cond := w.updatedCondition()
	if cond == nil || cond.Status != "True" || len(w.store.describe()) != 1 {
		return false
	}
	images := w.images()
	return len(images) == f18Replicas && w.countAt(image) == f18Replicas
}

// syncUntilSettled syncs until the rollout to image is settled, at most budget
// times. It returns the number of syncs used.
func (w *f18World) syncUntilSettled(image string, budget int) (int, error) {
	var lastErr error
	for i := 1; i <= budget; i++ {
		lastErr = w.syncOnce()
		w.t.Logf("  sync %2d -> err=%v images=%v Updated=%s", i, lastErr, w.images(), f18CondString(w.updatedCondition()))
		if lastErr == nil && w.settled(image) {
			return i, nil
		}
	}
	return budget, fmt.Errorf("rollout to %q did not complete within %d syncs although every child was healthy after every sync:\n"+
		"  children at %q: %d of %d (images=%v)\n"+
		"  parent condition Updated: %s\n"+
		"  ControllerRevisions left: %d %v\n"+
		"  distinct RolloutWaiting messages: %q\n"+
		"  last sync error: %v",
		image, budget, image, w.countAt(image), f18Replicas, w.images(), f18CondString(w.updatedCondition()),
		len(w.store.describe()), w.store.describe(), w.waits, lastErr)
}

func f18CondString(c *dynamicobject.StatusCondition) string {
	if c == nil {
		return "<none>"
	}
	return fmt.Sprintf("{Status:%s Reason:%s Message:%q}", c.Status, c.Reason, c.Message)
}

func f18RunRollout(t *testing.T, generateSelector bool) {
	for _, method := range []v1alpha1.ChildUpdateMethod{v1alpha1.ChildUpdateRollingInPlace, v1alpha1.ChildUpdateRollingRecreate} {
		t.Run(string(method), func(t *testing.T) {
			w := newF18World(t, generateSelector, method)

			t.Logf("initial creation at v1 (generateSelector=%v)", generateSelector)
			if _, err := w.syncUntilSettled("v1", 5); err != nil {
				t.Fatalf("initial creation: %v", err)
			}
			// Sanity: the children carry the label that makes them match the selector.
			for name, c := range w.liveChildren() {
				if generateSelector && c.GetLabels()["controller-uid"] != f18ParentUID {
					t.Fatalf("child %s has no injected controller-uid label: %v", name, c.GetLabels())
				}
				if ref := metav1.GetControllerOf(c); ref == nil || ref.UID != f18ParentUID {
					t.Fatalf("child %s is not controlled by the parent: %v", name, c.GetOwnerReferences())
				}
			}

			t.Logf("parent changed to image v2")
			w.setImage("v2")
			used, err := w.syncUntilSettled("v2", 20)
			if err != nil {
				t.Fatal(err)
			}
			t.Logf("%s: rollout of %d children completed in %d syncs", method, f18Replicas, used)
		})
	}
}

// TestF18GeneratedSelectorRolloutCompletes: generateSelector=true, the hook
// returns children without any controller-uid label.
func TestF18GeneratedSelectorRolloutCompletes(t *testing.T) {
	f18RunRollout(t, true)
}

// TestF18ExplicitSelectorRolloutCompletes: control. generateSelector=false, the
// parent has spec.selector.matchLabels and the hook sets matching labels.
func TestF18ExplicitSelectorRolloutCompletes(t *testing.T) {
	f18RunRollout(t, false)
}

// TestF18InvalidChildLabelsStillReported guards existing behaviour that a fix
// must keep: with generateSelector=true, a desired child whose metadata.labels
// is not a string map is reported as a sync error ("invalid labels on desired
// child"), it is not silently replaced by the controller-uid label. Passes on
// the unchanged tree.
func TestF18InvalidChildLabelsStillReported(t *testing.T) {
	w := newF18World(t, true, v1alpha1.ChildUpdateRollingInPlace)
	w.pc.syncHook = &f18Hook{invalidLabels: true}
	err := w.pc.syncParentObject(w.liveParent())
	if err == nil || !strings.Contains(err.Error(), "invalid labels on desired child") {
		t.Fatalf("sync error = %v, want \"invalid labels on desired child ...\"; children created: %v", err, w.images())
	}
	if n := len(w.liveChildren()); n != 0 {
		t.Fatalf("%d children were created from a hook answer with invalid labels", n)
	}
}
