package decorator

import (
	"fmt"
	"net/http"
	"net/http/httptest"
	"runtime"
	"strings"
	"sync/atomic"
	"testing"
	"time"

	"metacontroller/pkg/apis/metacontroller/v1alpha1"
	dynamicinformer "metacontroller/pkg/dynamic/informer"
	. "metacontroller/pkg/internal/testutils/common"
	. "metacontroller/pkg/internal/testutils/dynamic/clientset"
	. "metacontroller/pkg/internal/testutils/dynamic/discovery"
	"metacontroller/pkg/logging"

	metav1 "k8s.io/apimachinery/pkg/apis/meta/v1"
	k8sruntime "k8s.io/apimachinery/pkg/runtime"
	"k8s.io/apimachinery/pkg/runtime/schema"
	"k8s.io/client-go/dynamic/fake"
	clientgotesting "k8s.io/client-go/testing"
	"k8s.io/client-go/tools/record"
	"sigs.k8s.io/controller-runtime/pkg/log/zap"
)

// f19WorkerWaitsForRelatedInformer reports whether some goroutine is currently
// inside customize.(*Manager).getRelatedClient and, from there, inside
// client-go's WaitForNamedCacheSync, i.e. a worker is parked in the "wait for
// the lazily created related informer to sync" step.
func f19WorkerWaitsForRelatedInformer() bool {
	buf := make([]byte, 1<<20)
	for {
		n := runtime.Stack(buf, true)
		if n < len(buf) {
			buf = buf[:n]
			break
		}
		buf = make([]byte, 2*len(buf))
	}
	for _, g := range strings.Split(string(buf), "\n\n") {
		if strings.Contains(g, "customize.(*Manager).getRelatedClient") &&
			strings.Contains(g, "cache.WaitForNamedCacheSync") &&
			strings.Contains(g, "decorator.(*decoratorController).worker") {
			return true
		}
	}
	return false
}

// A DecoratorController whose customize hook asks for a related resource that
// can never be listed (think: missing RBAC) has a worker parked in the "wait
// for the related informer to sync" step. Stopping the hosted controller (what
// the reconciler does on a spec change or a delete of the DecoratorController)
// must still complete: the wait is aborted, the worker drains and Stop returns.
func TestF19DecoratorStopCompletesWhileRelatedInformerNeverSyncs(t *testing.T) {
	logging.InitLogging(&zap.Options{})

	const stopBound = 15 * time.Second

	// --- hooks -------------------------------------------------------------
	var customizeCalls, syncCalls int32
	mux := http.NewServeMux()
	mux.HandleFunc("/customize", func(w http.ResponseWriter, r *http.Request) {
		atomic.AddInt32(&customizeCalls, 1)
		w.Header().Set("Content-Type", "application/json")
		fmt.Fprint(w, `{"relatedResources":[{"apiVersion":"v1","resource":"configmaps","labelSelector":{}}]}`)
	})
	mux.HandleFunc("/sync", func(w http.ResponseWriter, r *http.Request) {
		atomic.AddInt32(&syncCalls, 1)
		w.Header().Set("Content-Type", "application/json")
		fmt.Fprint(w, `{}`)
	})
	server := httptest.NewServer(mux)
	defer server.Close()

	// --- cluster -----------------------------------------------------------
	parent := NewDefaultUnstructured()
	parent.SetUID("f19-parent-uid")
	parent.SetGeneration(1)

	gvrToListKind := map[schema.GroupVersionResource]string{
		{Group: TestGroup, Version: TestVersion, Resource: TestResource}: TestResourceList,
		{Group: "", Version: "v1", Resource: "configmaps"}:               "ConfigMapList",
	}
	dynClient := fake.NewSimpleDynamicClientWithCustomListKinds(k8sruntime.NewScheme(), gvrToListKind, parent)

	// The related resource can not be listed, so its informer never syncs.
	var relatedListAttempts int32
	relatedListAttempted := make(chan struct{}, 1000)
	dynClient.PrependReactor("list", "configmaps", func(action clientgotesting.Action) (bool, k8sruntime.Object, error) {
		atomic.AddInt32(&relatedListAttempts, 1)
		select {
		case relatedListAttempted <- struct{}{}:
		default:
		}
		return true, nil, fmt.Errorf("configmaps is forbidden: cannot list resource")
	})

	apiResources := append(NewDefaultStatusAPIResourceList(), &metav1.APIResourceList{
		GroupVersion: "v1",
		APIResources: []metav1.APIResource{
			{Name: "configmaps", Namespaced: true, Group: "", Version: "v1", Kind: "ConfigMap"},
		},
	})
	resourceMap := NewFakeResourceMap(NewFakeNewSimpleClientsetWithResources(apiResources))
	clientset := NewClientset(NewDefaultRestConfig(), resourceMap, dynClient)
	informerFactory := dynamicinformer.NewSharedInformerFactory(clientset, 5*time.Minute)

	// --- the DecoratorController ---------------------------------------------
	syncURL := server.URL + "/sync"
	customizeURL := server.URL + "/customize"
	dc := &v1alpha1.DecoratorController{
		ObjectMeta: metav1.ObjectMeta{Name: "f19-stop"},
		Spec: v1alpha1.DecoratorControllerSpec{
			Resources: []v1alpha1.DecoratorControllerResourceRule{
				{ResourceRule: v1alpha1.ResourceRule{APIVersion: TestAPIVersion, Resource: TestResource}},
			},
			Hooks: &v1alpha1.DecoratorControllerHooks{
				Sync:      &v1alpha1.Hook{Webhook: &v1alpha1.Webhook{URL: &syncURL}},
				Customize: &v1alpha1.Hook{Webhook: &v1alpha1.Webhook{URL: &customizeURL}},
			},
		},
	}

	c, err := newDecoratorController(
		resourceMap,
		clientset,
		informerFactory,
		&record.FakeRecorder{},
		dc,
		1,
		logging.Logger,
	)
	if err != nil {
		t.Fatalf("newDecoratorController: %v", err)
	}
	c.Start()

	// Wait until the worker has asked the customize hook and the informer for the
	// related resource has been started (its list was attempted and refused).
	select {
	case <-relatedListAttempted:
	case <-time.After(20 * time.Second):
		t.Fatalf("the related informer was never started (customize hook calls: %d)", atomic.LoadInt32(&customizeCalls))
	}
	if atomic.LoadInt32(&customizeCalls) == 0 {
		t.Fatalf("customize hook was not called before the related informer was started")
	}
	// Wait until the (only) worker really is parked in WaitForNamedCacheSync
	// below customize.(*Manager).getRelatedClient.
	parked := false
	for deadline := time.Now().Add(10 * time.Second); time.Now().Before(deadline); time.Sleep(50 * time.Millisecond) {
		if f19WorkerWaitsForRelatedInformer() {
			parked = true
			break
		}
	}
	if !parked {
		t.Fatalf("precondition not reached: no worker goroutine is waiting in WaitForNamedCacheSync below getRelatedClient")
	}
	// It stays parked there (the informer can not sync), and the sync hook has
	// not been called.
	time.Sleep(500 * time.Millisecond)
	if !f19WorkerWaitsForRelatedInformer() {
		t.Fatalf("precondition not stable: the worker left WaitForNamedCacheSync although configmaps can not be listed")
	}
	if n := atomic.LoadInt32(&syncCalls); n != 0 {
		t.Fatalf("sync hook called %d times although the related informer has not synced", n)
	}
	t.Logf("precondition reached: customize calls=%d, refused configmaps LISTs=%d, sync calls=%d, worker parked in WaitForNamedCacheSync",
		atomic.LoadInt32(&customizeCalls), atomic.LoadInt32(&relatedListAttempts), atomic.LoadInt32(&syncCalls))

	// Now the DecoratorController is deleted / its spec is changed: the
	// reconciler stops the hosted controller.
	stopped := make(chan struct{})
	stopStart := time.Now()
	go func() {
		defer close(stopped)
		c.Stop()
	}()

	select {
	case <-stopped:
		t.Logf("decoratorController.Stop() returned after %v", time.Since(stopStart))
	case <-time.After(stopBound):
		t.Fatalf("decoratorController.Stop() did not return within %v: the hosted controller can not be stopped "+
			"while a worker waits for a related informer that never syncs (worker still parked in WaitForNamedCacheSync: %v)",
			stopBound, f19WorkerWaitsForRelatedInformer())
	}

	if f19WorkerWaitsForRelatedInformer() {
		t.Fatalf("Stop() returned but a worker is still waiting for the related informer")
	}

	// After the stop nothing is done on its behalf any more.
	callsAtStop := atomic.LoadInt32(&syncCalls) + atomic.LoadInt32(&customizeCalls)
	t.Logf("at Stop() return: customize calls=%d, sync calls=%d", atomic.LoadInt32(&customizeCalls), atomic.LoadInt32(&syncCalls))
	time.Sleep(1500 * time.Millisecond)
	if now := atomic.LoadInt32(&syncCalls) + atomic.LoadInt32(&customizeCalls); now != callsAtStop {
		t.Fatalf("hook calls after Stop returned: %d -> %d", callsAtStop, now)
	}
}
