#!/bin/bash
# Turns test-surviving typed mutants that the checks report into regression fixtures of the thorough tier
# (checker/selftest-mutants/<prop>-tmutNNN/{patch.diff,meta.json}); at most 2 per (file, function, kind).
# usage: mkfixtures2.sh <root> <results-file> <survivors-file (rel\tn)>
ROOT=$1; RES=$2; SURV=$3
declare -A cnt
n0=$(ls -d /verif/checker/selftest-mutants/*-tmut* 2>/dev/null | wc -l)
i=$n0
while IFS=$'\t' read -r rel n; do
  line=$(grep -P "^$rel\t$n\t" $RES | head -1); [ -z "$line" ] && continue
  props=$(echo "$line" | sed -E 's/.*\[(.*)\]$/\1/'); [ -z "$(echo $props)" ] && continue
  kind=$(echo "$line" | cut -f4); fnc=$(echo "$line" | cut -f5); desc=$(echo "$line" | cut -f6); ln=$(echo "$line" | cut -f3)
  key="$rel|$fnc|$kind"; cnt[$key]=$(( ${cnt[$key]:-0} + 1 )); [ ${cnt[$key]} -gt 2 ] && continue
  i=$((i+1)); np=$(echo $props | wc -w); prop=$(echo $props | cut -d' ' -f$(( (i % np) + 1 ))); id=$(printf "%s-tmut%03d" $prop $i); d=/verif/checker/selftest-mutants/$id; mkdir -p $d
  t=$(mktemp -d /tmp/fx.XXXX); mkdir -p $t/a/$(dirname $rel) $t/b/$(dirname $rel); cp /repo/$rel $t/a/$rel; cp $ROOT/$(echo $rel | tr / _)/$n.go $t/b/$rel
  (cd $t && gofmt -w b/$rel 2>/dev/null; diff -u a/$rel b/$rel | sed -E '1s/\t.*//; 2s/\t.*//' > $d/patch.diff); rm -rf $t
  python3 - "$d/meta.json" "$id" "$rel" "$ln" "$fnc" "$kind" "$desc" "$props" <<'PY'
import json,sys
p,id_,rel,ln,fnc,kind,desc,props=sys.argv[1:9]
json.dump({"id":id_,"kind":"typed first-order mutant (checker/cmd/mutate2, operator "+kind+")","file":rel,"line":ln,"function":fnc,"mutation":desc,"survives_repository_tests":True,"reported_by":props.split(),"note":"regression fixture of the checker (DESIGN.md 8.11); passes the repository's 87 tests; not a validated seed: no demonstration attached"},open(p,'w'),indent=1)
PY
done < $SURV
ls -d /verif/checker/selftest-mutants/*-tmut* | wc -l
