#!/bin/bash
# usage: ovrun.sh <patch.diff> [property|all]  — analyse /repo + patch through an overlay
P=$1; prop=${2:-all}; d=$(mktemp -d /tmp/mcvet-ov.XXXXXX)
for f in $(grep '^+++ b/' $P | sed 's#^+++ b/##'); do mkdir -p $d/$(dirname $f); cp /repo/$f $d/$f 2>/dev/null || true; done
(cd $d && patch -s -p1 --no-backup-if-mismatch < $P >/dev/null 2>&1) || { echo PATCH-DOES-NOT-APPLY; rm -rf $d; exit 3; }
/verif/bin/mcvet -verif /tmp/mcvet-mut-verif -property $prop -overlay-dir $d 2>&1 | grep -E "^VIOLATION|\[(violation|undecided|anchor-lost|rule-dead)\]|load:|RENAMED" | cut -c1-${W:-300}
rm -rf $d
