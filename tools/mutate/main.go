// Command mutate writes first-order syntactic mutants of one Go source file:
//   neg   - negate the condition of an if statement
//   and   - swap && and || in a condition
//   call  - delete an expression statement that is a call (not a log/info call)
//   ret   - replace 'continue' by nothing / delete an early 'return nil' inside an if body (the whole if)
//   eq    - swap == and != , < and <=
// Usage: mutate <file.go> <outdir>   → outdir/<n>.go + outdir/index.txt (n, line, kind, function, snippet)
package main

import (
	"bytes"
	"fmt"
	"go/ast"
	"go/parser"
	"go/printer"
	"go/token"
	"os"
	"path/filepath"
	"strings"
)

type site struct {
	kind string
	line int
	fn   string
	desc string
	do   func() (undo func())
}

func main() {
	if len(os.Args) != 3 {
		fmt.Fprintln(os.Stderr, "usage: mutate file.go outdir")
		os.Exit(2)
	}
	src, out := os.Args[1], os.Args[2]
	fset := token.NewFileSet()
	f, err := parser.ParseFile(fset, src, nil, parser.ParseComments)
	if err != nil {
		fmt.Fprintln(os.Stderr, err)
		os.Exit(2)
	}
	var sites []site
	snippet := func(n ast.Node) string {
		var b bytes.Buffer
		_ = printer.Fprint(&b, fset, n)
		s := strings.Join(strings.Fields(b.String()), " ")
		if len(s) > 90 {
			s = s[:90] + "…"
		}
		return s
	}
	isLog := func(c *ast.CallExpr) bool {
		s := snippet(c.Fun)
		return strings.Contains(s, "Logger") || strings.Contains(s, "logger") || strings.Contains(s, ".Info") || strings.Contains(s, ".Error") && strings.Contains(s, "log") || strings.HasPrefix(s, "klog.") || strings.Contains(s, "Eventf") || strings.Contains(s, "HandleError")
	}
	for _, d := range f.Decls {
		fd, ok := d.(*ast.FuncDecl)
		if !ok || fd.Body == nil {
			continue
		}
		fname := fd.Name.Name
		ast.Inspect(fd.Body, func(n ast.Node) bool {
			switch x := n.(type) {
			case *ast.IfStmt:

				ln := fset.Position(x.Pos()).Line
				sites = append(sites, site{"neg", ln, fname, "negate: if " + snippet(x.Cond), func() func() {
					old := x.Cond
					x.Cond = &ast.UnaryExpr{Op: token.NOT, X: &ast.ParenExpr{X: old}}
					return func() { x.Cond = old }
				}})
			case *ast.BinaryExpr:

				ln := fset.Position(x.Pos()).Line
				var nop token.Token
				switch x.Op {
				case token.LAND:
					nop = token.LOR
				case token.LOR:
					nop = token.LAND
				case token.EQL:
					nop = token.NEQ
				case token.NEQ:
					nop = token.EQL
				case token.LSS:
					nop = token.LEQ
				case token.GTR:
					nop = token.GEQ
				case token.LEQ:
					nop = token.LSS
				case token.GEQ:
					nop = token.GTR
				default:
					return true
				}
				kind := "eq"
				if x.Op == token.LAND || x.Op == token.LOR {
					kind = "and"
				}
				sites = append(sites, site{kind, ln, fname, fmt.Sprintf("%s → %s in: %s", x.Op, nop, snippet(x)), func() func() {
					old := x.Op
					x.Op = nop
					return func() { x.Op = old }
				}})
			case *ast.BlockStmt:

				for i, st := range x.List {
					i, st := i, st
					switch s := st.(type) {
					case *ast.ExprStmt:
						if c, ok := s.X.(*ast.CallExpr); ok && !isLog(c) {
							ln := fset.Position(s.Pos()).Line
							sites = append(sites, site{"call", ln, fname, "delete call: " + snippet(s), func() func() {
								x.List[i] = &ast.EmptyStmt{Semicolon: s.Pos(), Implicit: false}
								return func() { x.List[i] = st }
							}})
						}
					case *ast.BranchStmt:
						if s.Tok == token.CONTINUE && i == len(x.List)-1 {
							ln := fset.Position(s.Pos()).Line
							sites = append(sites, site{"ret", ln, fname, "delete: continue", func() func() {
								x.List[i] = &ast.EmptyStmt{Semicolon: s.Pos()}
								return func() { x.List[i] = st }
							}})
						}
					case *ast.IfStmt:
						// delete a whole guard 'if cond { return/continue … }' (no else, no init)
						if s.Else == nil && s.Init == nil && len(s.Body.List) > 0 {
							last := s.Body.List[len(s.Body.List)-1]
							_, isRet := last.(*ast.ReturnStmt)
							br, isBr := last.(*ast.BranchStmt)
							if isRet || (isBr && br.Tok == token.CONTINUE) {
								ln := fset.Position(s.Pos()).Line
								sites = append(sites, site{"ret", ln, fname, "delete guard: if " + snippet(s.Cond) + " {…}", func() func() {
									x.List[i] = &ast.EmptyStmt{Semicolon: s.Pos()}
									return func() { x.List[i] = st }
								}})
							}
						}
					}
				}
			}
			return true
		})
	}
	_ = os.MkdirAll(out, 0o755)
	var idx bytes.Buffer
	for n, s := range sites {
		undo := s.do()
		var b bytes.Buffer
		if err := printer.Fprint(&b, fset, f); err == nil {
			_ = os.WriteFile(filepath.Join(out, fmt.Sprintf("%04d.go", n)), b.Bytes(), 0o644)
			fmt.Fprintf(&idx, "%04d\t%d\t%s\t%s\t%s\n", n, s.line, s.kind, s.fn, s.desc)
		}
		undo()
	}
	_ = os.WriteFile(filepath.Join(out, "index.txt"), idx.Bytes(), 0o644)
	fmt.Printf("%s: %d mutants\n", src, len(sites))
}
