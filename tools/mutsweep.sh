#!/bin/bash
# Sweep of first-order syntactic mutants (tools/mutate) through all checks (overlay; /repo untouched).
# usage: mutsweep.sh [parallel]   → /tmp/mut/results.txt : <file>\t<n>\t<line>\t<kind>\t<func>\t<props that fire>\t<desc>
P=${1:-4}
: > /tmp/mut/results.txt
one() {
  dir=$1; n=$2; rel=$(cat $dir/REL); d=$(mktemp -d /tmp/mcvet-mut.XXXXXX); mkdir -p $d/$(dirname $rel); cp $dir/$n.go $d/$rel
  out=$(/verif/bin/mcvet -verif /tmp/mcvet-mut-verif -property all -overlay-dir $d 2>&1)
  props=$(echo "$out" | grep '^VIOLATION' | sed 's/.*property=\(C[0-9a-z]*\).*/\1/' | sort -u | tr '\n' ' ')
  load=$(echo "$out" | grep -c 'kind=load-failed')
  [ "$load" != 0 ] && props="NOCOMPILE"
  line=$(grep "^$n" $dir/index.txt)
  echo -e "$rel\t$line\t[$props]" >> /tmp/mut/results.txt
  rm -rf $d
}
export -f one
for dir in /tmp/mut/pkg_*; do
  rel=$(basename $dir | sed 's#_#/#g'); 
  # recover the real path (underscores in file names): match against /repo
  real=$(cd /repo && ls pkg/**/*.go pkg/*/*/*.go pkg/*/*/*/*.go pkg/*/*/*/*/*.go 2>/dev/null | while read f; do [ "$(echo $f | tr / _)" = "$(basename $dir)" ] && echo $f; done | head -1)
  echo $real > $dir/REL
  cut -f1 $dir/index.txt | while read n; do echo "$dir $n"; done
done | xargs -P $P -L 1 bash -c 'one $0 $1'
echo DONE >> /tmp/mut/results.txt
