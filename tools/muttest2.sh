#!/bin/bash
# Runs the repository's test suite on the mutants of <root> that the checks did NOT flag, in N scratch worktrees of /repo HEAD (removed afterwards).
# usage: muttest2.sh <root> <list-file> <workers>   ; list-file lines: <relpath>\t<n>\t...  → <root>/tested.txt : SURVIVES|KILLED|NOBUILD \t rel \t n \t rest
export GOFLAGS=-mod=mod GOPROXY=off GOSUMDB=off GOTOOLCHAIN=local
ROOT=$1; LIST=$2; N=${3:-3}
: > $ROOT/tested.txt
rm -f $ROOT/slice.*; split -n l/$N -d $LIST $ROOT/slice.
for i in $(seq 0 $((N-1))); do
  (
    WT=/tmp/mutwt$i; git -C /repo worktree remove --force $WT 2>/dev/null; git -C /repo worktree add -q --detach $WT HEAD
    cd $WT; go build ./... >/dev/null 2>&1; go test -vet=off -p 3 ./pkg/... >/dev/null 2>&1
    while IFS=$'\t' read -r rel n rest; do
      dir=$ROOT/$(echo $rel | tr / _)
      cp $dir/$n.go $WT/$rel
      if ! go build ./... >/dev/null 2>&1; then res=NOBUILD
      elif go test -vet=off -p 3 ./pkg/... >/dev/null 2>&1; then res=SURVIVES; else res=KILLED; fi
      git checkout -q -- $rel
      echo -e "$res\t$rel\t$n\t$rest" >> $ROOT/tested.txt
    done < $ROOT/slice.0$i
    cd /; git -C /repo worktree remove --force $WT
  ) &
done
wait
grep -c SURVIVES $ROOT/tested.txt
