#!/bin/bash
# Sweep of the typed mutants of checker/cmd/mutate2 (layout <root>/<file_with_underscores>/{REL,index.txt,<n>.go}) through all checks.
# usage: mutsweep2.sh <root> [parallel]   → <root>/results.txt : <file>\t<n>\t<line>\t<kind>\t<func>\t<desc>\t[props that fire]
ROOT=$1; P=${2:-4}; export ROOT
: > $ROOT/results.txt
mkdir -p $ROOT/verif/checker; ln -sfn /verif/checker/controls $ROOT/verif/checker/controls; ln -sfn /verif/checker/reference $ROOT/verif/checker/reference; cp /verif/known_findings.json $ROOT/verif/
one() {
  dir=$1; n=$2; rel=$(cat $dir/REL); d=$(mktemp -d /tmp/mcvet-mut.XXXXXX); v=$(mktemp -d /tmp/mcvet-mv.XXXXXX); cp -a $ROOT/verif/. $v/; mkdir -p $d/$(dirname $rel); cp $dir/$n.go $d/$rel
  out=$(/verif/bin/mcvet -verif $v -property all -overlay-dir $d 2>&1)
  props=$(echo "$out" | grep '^VIOLATION' | sed 's/.*property=\(C[0-9a-z]*\).*/\1/' | sort -u | tr '\n' ' ')
  load=$(echo "$out" | grep -c 'kind=load-failed')
  [ "$load" != 0 ] && props="NOCOMPILE"
  line=$(grep "^$n" $dir/index.txt)
  echo -e "$rel\t$line\t[$props]" >> $ROOT/results.txt
  rm -rf $d $v
}
export -f one
for dir in $ROOT/pkg_*; do cut -f1 $dir/index.txt | while read n; do echo "$dir $n"; done; done | xargs -P $P -L 1 bash -c 'one $0 $1'
echo DONE >> $ROOT/results.txt
