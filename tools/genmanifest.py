#!/usr/bin/env python3
"""Regenerates /verif/MANIFEST.json from the table below (kept valid at all times)."""
import json, os
V = '/verif'
props = [json.loads(l)['id'] for l in open(f'{V}/properties.jsonl')]
base = "for m in $(cat /w/out/gomods.txt); do MF=$(cd /repo/$m && . /w/out/goenv.sh && gomodflag); (cd /repo/$m && go test $MF -json -vet=off -count=1 -timeout 25m ./...); done"

# id -> (technique, level text, level note, design ref)
claimed = json.load(open(f'{V}/tools/claims.json'))

checks = []
for pid in props:
    if pid not in claimed:
        continue
    c = claimed[pid]
    checks.append({
        "property_id": pid,
        "quick_cmd": f"/verif/bin/mcvet -repo /repo -verif /verif -property {pid} -tier quick",
        "thorough_cmd": f"/verif/bin/mcvet -repo /repo -verif /verif -property {pid} -tier thorough",
        "evidence_file": f"/verif/evidence/{pid}.json",
        "replay_cmd_template": "/verif/bin/mcvet -explain {path}",
        "engine": "mcvet",
        "level_claimed": {"category": "other", "text": c["text"], "design_ref": c.get("design_ref", f"DESIGN.md section 3, {pid}")},
        "level_note": c["note"],
        "technique": c["technique"],
    })
na = [{"property_id": p, "reason": "check not built yet (planned static rules: DESIGN.md section 3)"} for p in props if p not in claimed]
m = {
    "version": 1,
    "setup_cmd": "cd /verif/checker && GOFLAGS=-mod=mod GOPROXY=off GOSUMDB=off GOTOOLCHAIN=local GOWORK=off go build -o /verif/bin/mcvet .",
    "hooks": {"guard": "verif", "enable": "no hooks: mcvet analyses /repo's working tree as-is (static analysis only; nothing is built with a tag)",
              "baseline_off_cmd": base, "source_commits": [], "add_only": True},
    "engines": [{"name": "mcvet", "path": "/verif/checker", "serves_properties": sorted(claimed),
                 "kind_free_text": "repository-specific static analyser: go/packages + go/types + go/ssa (x/tools v0.29.0); rules = CFG reachability with cut sets (dominance / must-pass / guarded-by), decision-table extraction by path enumeration, sink enumeration, value-flow and lockset checks"}],
    "checks": checks,
    "not_applicable": na,
    "notes": "Static analysis only. Every claim is level 'other': a structural necessary condition of the property decided on /repo's SSA on every run; the behavioural remainder is listed per property in DESIGN.md section 5 and in each evidence file's coverage.explanation.",
}
json.dump(m, open(f'{V}/MANIFEST.json', 'w'), indent=1)
print("claimed:", sorted(claimed), "pending:", [x['property_id'] for x in na])
