#!/bin/bash
# Re-validates every seeded change against /repo's CURRENT HEAD in a scratch worktree (removed afterwards):
# patch applies (with fuzz), builds, full suite passes, demo fails with the patch and passes without.
export GOFLAGS=-mod=mod GOPROXY=off GOSUMDB=off GOTOOLCHAIN=local
WT=${WT:-/tmp/reval}; OUT=${1:-/tmp/reval.log}; : > $OUT
git -C /repo worktree remove --force $WT 2>/dev/null; git -C /repo worktree add -q --detach $WT HEAD || exit 2
cd $WT
for S in /verif/seeded/C*-*m*; do
  id=$(basename $S)
  git checkout -q -- . ; git clean -fdq
  pkg=$(python3 -c "import json;print(json.load(open('$S/meta.json'))['demo_pkg'])")
  run=$(python3 -c "import json;print(json.load(open('$S/meta.json'))['demo_run'])")
  flags=$(python3 -c "import json;print(json.load(open('$S/meta.json')).get('demo_extra_flags',''))")
  if ! patch -s -p1 --no-backup-if-mismatch < $S/patch.diff >/dev/null 2>&1; then echo "$id apply=FAIL" >> $OUT; continue; fi
  if ! go build ./... >/dev/null 2>&1; then echo "$id build=FAIL" >> $OUT; continue; fi
  if go test -vet=off -count=1 -p 6 ./pkg/... >/dev/null 2>&1; then suite=PASS; else suite=FAIL; fi
  cp -r $S/demo/. $WT/
  if go test -vet=off -count=1 $flags -run "$run" $pkg >/dev/null 2>&1; then patched=PASS; else patched=FAIL; fi
  git checkout -q -- .
  if go test -vet=off -count=1 $flags -run "$run" $pkg >/dev/null 2>&1; then clean=PASS; else clean=FAIL; fi
  echo "$id suite=$suite demo_clean=$clean demo_patched=$patched" >> $OUT
done
cd /; git -C /repo worktree remove --force $WT
echo DONE >> $OUT
