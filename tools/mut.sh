#!/bin/bash
# usage: mut.sh <property|all> <repo-relative-file> <python-expr-old> <new>   (literal string replace, first occurrence; use @N suffix on file for Nth)
# Analyses a one-edit variant of /repo through an overlay; never touches /repo.
set -e
prop=$1; file=$2; old=$3; new=$4; nth=${5:-1}
d=$(mktemp -d /tmp/mcvet-mut.XXXXXX)
mkdir -p $d/$(dirname $file)
python3 - "$file" "$old" "$new" "$nth" "$d" <<'PY'
import sys
f,old,new,nth,d=sys.argv[1:6]
s=open('/repo/'+f).read()
n=int(nth); i=-1
for _ in range(n):
    i=s.find(old,i+1)
    if i<0: sys.exit('pattern not found')
s=s[:i]+new+s[i+len(old):]
open(d+'/'+f,'w').write(s)
PY
/verif/bin/mcvet -verif ${VERIF_OUT:-/tmp/mcvet-mut-verif} -property $prop -overlay-dir $d | grep -v "instances=" || true
rm -rf $d
