#!/bin/bash
# usage: mutrun.sh <relpath> <n> [prop]  — analyse one syntactic mutant (from /tmp/mut) through an overlay
rel=$1; n=$2; prop=${3:-all}; dir=/tmp/mut/$(echo $rel | tr / _); d=$(mktemp -d /tmp/mcvet-mut.XXXXXX); mkdir -p $d/$(dirname $rel); cp $dir/$n.go $d/$rel
/verif/bin/mcvet -verif /tmp/mcvet-mut-verif -property $prop -overlay-dir $d 2>&1 | grep -E "^VIOLATION|\[(violation|undecided|anchor-lost|rule-dead)\]" | cut -c1-${W:-220}
rm -rf $d
