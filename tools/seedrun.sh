#!/bin/bash
# usage: seedrun.sh <seeded-id> [property|all]  — analyses /repo + the seeded patch through an overlay (never writes /repo)
S=/verif/seeded/$1; prop=${2:-all}
d=$(mktemp -d /tmp/mcvet-seed.XXXXXX)
files=$(grep '^+++ b/' $S/patch.diff | sed 's#^+++ b/##')
for f in $files; do mkdir -p $d/$(dirname $f); cp /repo/$f $d/$f 2>/dev/null || true; done
if ! (cd $d && patch -s -p1 --no-backup-if-mismatch < $S/patch.diff >/dev/null 2>&1); then echo "PATCH-DOES-NOT-APPLY $1"; rm -rf $d; exit 3; fi
/verif/bin/mcvet -verif /tmp/mcvet-mut-verif -property $prop -overlay-dir $d > $d.out 2>&1
grep -E "^VIOLATION|\[(violation|undecided|anchor-lost|rule-dead)\]|load:" $d.out | cut -c1-400
n=$(grep -c '^VIOLATION' $d.out)
echo "SEED $1 prop=$prop violations_lines=$n"
rm -rf $d $d.out
