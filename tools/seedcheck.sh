#!/bin/bash
# usage: [SEEDROOT=/tmp/seed2 IDPFX=r2] seedcheck.sh <PROP> <mK>   — validates a sub-agent mutation in its scratch worktree and stores it under /verif/seeded/
# Steps: (a) demo passes on clean tree, (b) patch applies, builds, full suite passes, (c) demo fails with patch.
export GOFLAGS=-mod=mod GOPROXY=off GOSUMDB=off GOTOOLCHAIN=local
P=$1; M=$2
D=${SEEDROOT:-/tmp/seed}/$P; WT=$D/wt; O=$D/out/$M
[ -f $O/patch.diff ] || { echo "no patch for $P $M"; exit 2; }
cd $WT || exit 2
git checkout -q -- . ; git clean -fdq
pkg=$(python3 -c "import json;print(json.load(open('$O/meta.json'))['demo_pkg'])")
run=$(python3 -c "import json;print(json.load(open('$O/meta.json'))['demo_run'])")
flags=$(python3 -c "import json;print(json.load(open('$O/meta.json')).get('demo_extra_flags',''))")
log=$O/validate.log; : > $log
res() { echo "$1" | tee -a $log; }
# (b1) suite with patch, no demo
if ! git apply --check $O/patch.diff 2>>$log; then res "RESULT apply=FAIL"; exit 1; fi
git apply $O/patch.diff
if ! go build ./... >>$log 2>&1; then res "RESULT build=FAIL"; git checkout -q -- .; exit 1; fi
if go test -vet=off -count=1 -p 8 ./pkg/... >>$log 2>&1; then suite=PASS; else suite=FAIL; fi
# (c) demo with patch
cp -r $O/demo/. $WT/
if go test -vet=off -count=1 $flags -run "$run" $pkg >>$log 2>&1; then patched=PASS; else patched=FAIL; fi
# (a) demo clean
git checkout -q -- . 
if go test -vet=off -count=1 $flags -run "$run" $pkg >>$log 2>&1; then clean=PASS; else clean=FAIL; fi
git checkout -q -- . ; git clean -fdq
res "RESULT $P $M suite_with_patch=$suite demo_clean=$clean demo_patched=$patched"
if [ $suite = PASS ] && [ $clean = PASS ] && [ $patched = FAIL ]; then
  S=/verif/seeded/$P-${IDPFX}$M; mkdir -p $S; cp $O/patch.diff $S/; rm -rf $S/demo; cp -r $O/demo $S/demo
  python3 - "$O/meta.json" "$S/meta.json" "$P" "${IDPFX}$M" "$pkg" "$run" "$flags" <<'PY'
import json,sys
src,dst,P,M,pkg,run,flags=sys.argv[1:8]
m=json.load(open(src))
m['id']=f'{P}-{M}'
m['validated']={'what_i_ran':[
 'in a scratch worktree of /repo (since removed): git apply patch.diff; go build ./...; go test -vet=off -count=1 ./pkg/...  -> all ok',
 f'patch + demo: go test -vet=off -count=1 {flags} -run {run} {pkg} -> FAIL',
 f'clean tree + demo: same command -> ok'],
 'suite_with_patch':'PASS','demo_clean':'PASS','demo_patched':'FAIL'}
json.dump(m,open(dst,'w'),indent=1)
PY
  echo "KEPT $S"
else
  echo "REJECTED $P $M (see $log)"
fi
