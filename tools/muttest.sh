#!/bin/bash
# Runs the repository's test suite on the mutants the checks did NOT flag (from /tmp/mut/results.txt), in N scratch worktrees.
# usage: muttest.sh <list-file> <workers>   ; list-file lines: <relpath>\t<n>...  → /tmp/mut/survivors.txt (mutants that also pass all tests)
export GOFLAGS=-mod=mod GOPROXY=off GOSUMDB=off GOTOOLCHAIN=local
LIST=$1; N=${2:-3}
: > /tmp/mut/tested.txt
split -n l/$N -d $LIST /tmp/mut/slice.
for i in $(seq 0 $((N-1))); do
  (
    WT=/tmp/mutwt$i; git -C /repo worktree remove --force $WT 2>/dev/null; git -C /repo worktree add -q --detach $WT HEAD
    cd $WT; go build ./... >/dev/null 2>&1; go test -vet=off -p 4 ./pkg/... >/dev/null 2>&1   # warm the caches
    while IFS=$'\t' read -r rel n rest; do
      dir=/tmp/mut/$(echo $rel | tr / _)
      cp $dir/$n.go $WT/$rel
      if ! go build ./... >/dev/null 2>&1; then res=NOBUILD
      elif go test -vet=off -p 4 ./pkg/... >/dev/null 2>&1; then res=SURVIVES; else res=KILLED; fi
      git checkout -q -- $rel
      echo -e "$res\t$rel\t$n\t$rest" >> /tmp/mut/tested.txt
    done < /tmp/mut/slice.0$i
    cd /; git -C /repo worktree remove --force $WT
  ) &
done
wait
grep -c SURVIVES /tmp/mut/tested.txt
