#!/bin/bash
# like mutrun.sh but takes the mutant directory root as 3rd arg (M1=/tmp/mut, M2=/tmp/mut2)
rel=$1; n=$2; root=/tmp/mut; [ "$3" = M2 ] && root=/tmp/mut2; prop=${4:-all}; dir=$root/$(echo $rel | tr / _); d=$(mktemp -d /tmp/mcvet-mut.XXXXXX); mkdir -p $d/$(dirname $rel); cp $dir/$n.go $d/$rel
/verif/bin/mcvet -verif /tmp/mcvet-mut-verif -property $prop -overlay-dir $d 2>&1 | grep -E "^VIOLATION|\[(violation|undecided|anchor-lost|rule-dead)\]" | cut -c1-${W:-220}
rm -rf $d
